package main

import (
	"encoding/json"
	"regexp"
	"fmt"
	"os"
	"path/filepath"
	"sort"
	"strconv"
	"strings"
	"time"
)

type KnownFinding struct {
	Property   string `json:"property"`
	Obligation string `json:"obligation"` // obligation name, or unit name + "/*"
	Status     string `json:"status"`     // known | fixed
	Carve      string `json:"carve,omitempty"`
	Witness    string `json:"witness"`
	What       string `json:"what"`
	Commit     string `json:"commit,omitempty"`
	WitnessRe  string `json:"witness_regex,omitempty"` // stand-in findings: failing inputs covered by this entry
}

type KnownFile struct {
	Findings []KnownFinding `json:"findings"`
	Fixed    []string       `json:"fixed"`
}

func loadKnown() *KnownFile {
	k := &KnownFile{}
	b, err := os.ReadFile(filepath.Join(verifDir, "known_findings.json"))
	if err != nil {
		return k
	}
	json.Unmarshal(b, k)
	return k
}

type Violation struct {
	Obligation string
	Replay     string
	Confirmed  bool
	Detail     string
}

type evSample struct {
	Obligation string  `json:"obligation"`
	Clause     string  `json:"clause"`
	Solver     string  `json:"solver"`
	Seconds    float64 `json:"seconds"`
	Hyps       int     `json:"hypotheses"`
	Nodes      int     `json:"term_nodes"`
}

func (r *Run) report() int {
	w := r.w
	known := loadKnown()
	sort.Slice(r.units, func(i, j int) bool { return r.units[i].Name < r.units[j].Name })
	nOb, nDis := 0, 0
	var viols []Violation
	var undecided []string
	bySolver := map[string]int{}
	solverSec := 0.0
	var samples []evSample
	var underContract, trusted []string
	summarised := map[string]bool{}
	external := map[string]bool{}
	var assumedAll []string
	type slowT struct {
		n string
		s float64
	}
	var slow []slowT
	knownHit := map[int]bool{}
	os.MkdirAll(filepath.Join(verifDir, "replay", r.prop), 0755)
	for _, u := range r.units {
		if u.Undecided == "trusted" {
			trusted = append(trusted, u.Name)
			continue
		}
		if u.Undecided != "" {
			fmt.Printf("UNDECIDED unit=%s reason=%s\n", u.Name, u.Undecided)
			undecided = append(undecided, u.Name+": "+u.Undecided)
			// a unit that was decided on the unchanged tree (baseline/decided_<prop>.json) and has now left the
			// verified subset: its obligations discharged then and cannot even be generated now - reported
			if decidedBaseline(r.prop)[u.Name] {
				rp := filepath.Join(verifDir, "replay", r.prop, sanitizeFile(u.Name)+"_decided.json")
				b, _ := json.MarshalIndent(map[string]interface{}{"property": r.prop, "obligation": u.Name + "/decided", "status": "undecided",
					"detail": "this unit verified completely on the unchanged tree; with the current source the engine cannot generate its obligations: " + u.Undecided}, "", " ")
				os.WriteFile(rp, b, 0644)
				fmt.Printf("  FAIL %s/decided: the unit verified on the unchanged tree and is now outside the verified subset (%s)\n", u.Name, u.Undecided)
				viols = append(viols, Violation{Obligation: u.Name + "/decided", Replay: rp})
			}
			continue
		}
		underContract = append(underContract, u.Name)
		for _, s := range u.Summarised {
			summarised[s] = true
		}
		for _, s := range u.External {
			external[s] = true
		}
		assumedAll = append(assumedAll, u.Assumed...)
		ok := 0
		for _, o := range u.Obls {
			// known finding?
			kfIdx := -1
			for i, k := range known.Findings {
				if k.Status == "known" && k.Property == r.prop && (k.Obligation == o.Name || k.Obligation == u.Name+"/*") {
					kfIdx = i
				}
			}
			n := 1
			if o.Sub > 0 {
				n = o.Sub
			}
			nOb += n
			solverSec += o.Seconds
			if o.Status == "discharged" {
				nDis += n
				ok++
				bySolver[o.Solver] += n
				slow = append(slow, slowT{o.Name, o.Seconds})
				if len(samples) < 6 || (o.Kind == "post" && len(samples) < 12) {
					samples = append(samples, evSample{o.Name, o.Clause, o.Solver, round3(o.Seconds), len(o.Hyps), termSizeOf(o)})
				}
				if r.verbose {
					fmt.Printf("  ok   %-62s %-10s %.2fs\n", o.Name, o.Solver, o.Seconds)
				}
				continue
			}
			if kfIdx >= 0 {
				knownHit[kfIdx] = true
				nOb -= n // the listed part of this obligation is a recorded finding, not a claimed obligation
				continue
			}
			// violation candidate
			v := Violation{Obligation: o.Name}
			rp := filepath.Join(verifDir, "replay", r.prop, sanitizeFile(o.Name)+".json")
			rec := map[string]interface{}{"property": r.prop, "obligation": o.Name, "clause": o.Clause, "position": o.Pos.String(), "status": o.Status, "solver": o.Solver, "solver_output": firstLines(o.Output, 40)}
			if o.Status == "failed" && len(o.Model) > 0 {
				model := map[string]string{}
				for _, iv := range o.Inputs {
					if mv, ok := o.Model[iv.T.Name]; ok {
						model[iv.Path] = mv
					}
				}
				rec["model"] = model
				rr := w.replay(u, o, rp)
				rec["replay_test"] = rr.TestSrc
				rec["replay_output"] = rr.Output
				rec["replay_confirmed"] = rr.Confirmed
				v.Confirmed = rr.Confirmed
				v.Detail = rr.Detail
			}
			b, _ := json.MarshalIndent(rec, "", " ")
			os.WriteFile(rp, b, 0644)
			v.Replay = rp
			viols = append(viols, v)
			fmt.Printf("  FAIL %-62s status=%s solver=%s %.2fs\n       clause: %s\n       at %s\n", o.Name, o.Status, o.Solver, o.Seconds, o.Clause, o.Pos)
			if v.Detail != "" {
				fmt.Printf("       replay: %s\n", v.Detail)
			}
		}
		if r.verbose || ok != len(u.Obls) {
			fmt.Printf("unit %-55s %d/%d obligations discharged\n", u.Name, ok, len(u.Obls))
		}
	}
	for i, k := range known.Findings {
		if k.Status == "known" && k.Property == r.prop {
			if knownHit[i] {
				fmt.Printf("KNOWN-FINDING: property=%s %s %s (witness: %s)\n", k.Property, k.Obligation, k.What, k.Witness)
			} else if r.unitSelected(k.Obligation) {
				fmt.Printf("NOTE: listed finding %s no longer reproduces (obligation discharges)\n", k.Obligation)
			}
		}
	}
	// bounded stand-ins
	sres := r.runStandins()
	printedKF := map[string]bool{}
	for _, s := range sres {
		for _, f := range s.Failures {
			known := false
			for _, k := range loadKnown().Findings {
				if k.Status != "known" || k.Property != r.prop || k.Obligation != "standin:"+s.Name {
					continue
				}
				hit := k.WitnessRe == "" && strings.Contains(f, k.Witness)
				if k.WitnessRe != "" {
					if re, err := regexp.Compile(k.WitnessRe); err == nil && re.MatchString(f) {
						hit = true
					}
				}
				if hit {
					known = true
					if !printedKF[k.Obligation+k.What] {
						printedKF[k.Obligation+k.What] = true
						fmt.Printf("KNOWN-FINDING: property=%s standin:%s %s (witness: %s)\n", r.prop, s.Name, k.What, k.Witness)
					}
				}
			}
			if known {
				continue
			}
			rp := filepath.Join(verifDir, "replay", r.prop, "standin-"+sanitizeFile(s.Name)+".json")
			b, _ := json.MarshalIndent(map[string]interface{}{"property": r.prop, "standin": s.Name, "failing_input": f, "output": s.Output}, "", " ")
			os.WriteFile(rp, b, 0644)
			viols = append(viols, Violation{Obligation: "standin:" + s.Name, Replay: rp, Confirmed: true, Detail: f})
			break
		}
		if s.Error != "" {
			rp := filepath.Join(verifDir, "replay", r.prop, "standin-"+sanitizeFile(s.Name)+".json")
			b, _ := json.MarshalIndent(map[string]interface{}{"property": r.prop, "standin": s.Name, "error": s.Error, "output": s.Output}, "", " ")
			os.WriteFile(rp, b, 0644)
			viols = append(viols, Violation{Obligation: "standin:" + s.Name, Replay: rp, Confirmed: false, Detail: "stand-in did not run: " + s.Error})
		}
	}
	// vacuity / structural problems are failures of the machinery's own obligations
	for _, v := range r.vacuous {
		rp := filepath.Join(verifDir, "replay", r.prop, "vacuous-"+sanitizeFile(v)+".json")
		b, _ := json.MarshalIndent(map[string]interface{}{"property": r.prop, "obligation": v + "/canary", "detail": "the hypotheses of this unit are unsatisfiable: its obligations hold vacuously (contradictory requires / invariant / lemma)"}, "", " ")
		os.WriteFile(rp, b, 0644)
		fmt.Printf("  FAIL %s/canary: hypotheses unsatisfiable (vacuous proof)\n", v)
		viols = append(viols, Violation{Obligation: v + "/canary", Replay: rp})
	}
	if len(r.scanProblems) > 0 {
		rp := filepath.Join(verifDir, "replay", r.prop, "established_by-scan.json")
		b, _ := json.MarshalIndent(map[string]interface{}{"property": r.prop, "obligation": "established_by scan", "detail": r.scanProblems}, "", " ")
		os.WriteFile(rp, b, 0644)
		for _, p := range r.scanProblems {
			fmt.Printf("  FAIL established_by scan: %s\n", p)
		}
		viols = append(viols, Violation{Obligation: "established_by scan", Replay: rp})
	}
	nOb++ // the structural scan counts as one obligation
	if len(r.scanProblems) == 0 {
		nDis++
	}
	wall := time.Since(r.start).Seconds()
	fmt.Printf("TOTAL property=%s tier=%s obligations=%d discharged=%d undecided_units=%d standins=%d wall=%.1fs\n", r.prop, r.tier, nOb, nDis, len(undecided), len(sres), wall)
	// vacuity guard
	if nOb == 0 && len(sres) == 0 {
		fmt.Printf("ERROR: no obligations generated for %s\n", r.prop)
		return 2
	}
	sort.Slice(slow, func(i, j int) bool { return slow[i].s > slow[j].s })
	var slowest []string
	for i := 0; i < len(slow) && i < 5; i++ {
		slowest = append(slowest, fmt.Sprintf("%s %.2fs", slow[i].n, slow[i].s))
	}
	r.writeEvidence(nOb, nDis, underContract, trusted, keysOf(summarised), keysOf(external), assumedAll, undecided, bySolver, solverSec, slowest, samples, sres, len(viols), wall)
	for _, v := range viols {
		suffix := ""
		if !v.Confirmed {
			suffix = " no-failing-input-found"
		}
		fmt.Printf("VIOLATION property=%s replay=%s%s\n", r.prop, v.Replay, suffix)
	}
	if len(viols) > 0 {
		return 1
	}
	return 0
}

func (r *Run) unitSelected(obl string) bool {
	for _, u := range r.units {
		if strings.HasPrefix(obl, u.Name+"/") {
			return true
		}
	}
	return false
}

func termSizeOf(o *Obligation) int {
	if o.Goal == nil {
		return 0
	}
	termMu.Lock()
	defer termMu.Unlock()
	return termSize(append(append([]*Term{}, o.Hyps...), o.Goal)...)
}

func keysOf(m map[string]bool) []string {
	var ks []string
	for k := range m {
		ks = append(ks, k)
	}
	sort.Strings(ks)
	return ks
}

func round3(f float64) float64 {
	v, _ := strconv.ParseFloat(fmt.Sprintf("%.3f", f), 64)
	return v
}

var baseAssumptions = []string{
	"A2 float64 arithmetic is IEEE-754 binary64 round-to-nearest with one rounding per source operation (no FMA fusion: GOAMD64=v1); modelled as reals with |r-exact| <= |exact|*2^-53 and exactness of results with <=53 significant bits",
	"A3 standard library (fmt.Sprintf for %d/%0Nd/%s/%v, strings.Compare/Contains/Index/Replace, math.Floor/Ceil/Round, container/list) behaves as the engine's built-in models",
	"A4 int is 64-bit; integers are mathematical with a generated no-overflow side obligation for every + - * and float->int conversion",
	"A5 the VC generator (/verif/engine), its SMT encoding and the solvers z3 4.8.12, z3 5.1.0, cvc5 1.0.3 are trusted; mitigated by the must-fail corpus /verif/selftest and replay of every model on the real code",
	"A6 exported lookup tables are not mutated by clients (inside the module this is checked by a structural scan on every run)",
	"A7 termination is proved only for loops with a decreases clause",
	"A8 functions under contract are deterministic in their arguments (no hidden state, clock or randomness): two calls with identical arguments on one path denote the same value. The library's only shared state, the one-slot year cache behind NewLunarYear, is a trusted contract; schedule independence (C09) is not decided",
}

func (r *Run) writeEvidence(nOb, nDis int, under, trusted, summarised, external, assumed, undecided []string, bySolver map[string]int, solverSec float64, slowest []string, samples []evSample, sres []*StandinResult, nviol int, wall float64) {
	seed := 0
	if s := os.Getenv("VERIF_SEED"); s != "" {
		seed, _ = strconv.Atoi(s)
	}
	level := manifestLevel(r.prop)
	if level == "" {
		level = "proof"
	}
	if len(undecided) > 0 || nDis != nOb {
		if level == "proof" {
			level = "other"
		}
	}
	cov := map[string]interface{}{
		"obligations":              nOb,
		"discharged":               nDis,
		"checker_cmd":              fmt.Sprintf("/verif/check %s %s   (= /verif/bin/govc check -prop %s -tier %s; SMT-LIB2 per obligation, raced on z3-new 5.1.0 / cvc5 1.0.3 / z3 4.8.12, timeout %ds each)", r.prop, r.tier, r.prop, r.tier, r.timeout),
		"trusted_base":             append(append([]string{"govc VC generator", "z3 4.8.12", "z3 5.1.0", "cvc5 1.0.3", "go/types (x/tools v0.29.0)", "Go standard library models: " + strings.Join(external, ", ")}, prefixAll("trusted contract (not verified): ", trusted)...), prefixAll("assume() in ghost code: ", assumed)...),
		"functions_under_contract": under,
		"functions_summarised":     summarised,
		"by_solver":                bySolver,
		"solver_seconds":           round3(solverSec),
		"slowest":                  slowest,
		"samples":                  samples,
		"undecided":                undecided,
		"sweep_units_not_claimed":  r.unclaimed,
		"vacuity":                  map[string]interface{}{"canaries_sat": r.canarySat, "canaries_unknown": r.canaryUnknown, "vacuous_units": r.vacuous, "rule": "for every fully discharged unit two sets of hypotheses are checked satisfiable (5 s each): those of its first obligation (entry: preconditions, type invariants, lemma instances) and those of its last postcondition / assertion (the normal-return state); unsat would mean a vacuous proof and is reported as a failure; unknown is counted, not failed"},
		"structural_scan":          "established_by: objects of types with an invariant are created / written only in the listed constructors (checked on the typed AST of the whole module on every run)",
		"explanation":              explanationOf(r.prop, nOb, nDis, undecided, sres),
	}
	var standins []map[string]interface{}
	evals := 0
	for _, s := range sres {
		standins = append(standins, map[string]interface{}{"name": s.Name, "domain": s.Domain, "evaluations": s.Evaluations, "exhaustive_over_finite_domain": s.Exhaustive, "failures": len(s.Failures), "seconds": round3(s.Seconds), "label": "bounded (executed, not proved)"})
		evals += s.Evaluations
	}
	if len(standins) > 0 {
		cov["bounded_standins"] = standins
		cov["evaluations"] = evals
		cov["distinct_nontrivial"] = evals
		cov["rule"] = "bounded stand-ins enumerate their stated domain once; every evaluation is a distinct input"
	}
	// axioms the proofs of this run rest on
	var axiomNotes []string
	seenAx := map[string]bool{}
	for _, u := range r.units {
		for _, l := range u.Lemmas {
			for _, d := range r.w.Lemmas {
				if d.Name == l && d.Axiom && !seenAx[l] {
					seenAx[l] = true
					switch d.Checked {
					case "":
						axiomNotes = append(axiomNotes, "axiom "+l+": assumed, unchecked")
					case "definitional":
						axiomNotes = append(axiomNotes, "axiom "+l+": defining equation of an uninterpreted spec function by well-founded recursion (conservative; not checked mechanically)")
					default:
						axiomNotes = append(axiomNotes, "axiom "+l+": assumed in the proofs; executed against the real code over its whole finite domain by the bounded stand-in `"+d.Checked+"` on every run")
					}
				}
			}
		}
	}
	sort.Strings(axiomNotes)
	ev := map[string]interface{}{
		"property_id": r.prop,
		"tier":        r.tier,
		"seed":        seed,
		"level":       level,
		"coverage":    cov,
		"assumptions": append(append(append([]string{}, baseAssumptions...), extraAssumptions[r.prop]...), axiomNotes...),
		"wall_s":      round3(wall),
		"violations":  nviol,
	}
	os.MkdirAll(filepath.Join(verifDir, "evidence"), 0755)
	b, _ := json.MarshalIndent(ev, "", " ")
	os.WriteFile(filepath.Join(verifDir, "evidence", r.prop+".json"), b, 0644)
}

func prefixAll(p string, xs []string) []string {
	var out []string
	for _, x := range xs {
		out = append(out, p+x)
	}
	return out
}

// per-property level and notes (kept in step with MANIFEST.json)
var levelOf = map[string]string{}
var extraAssumptions = map[string][]string{}

func explanationOf(prop string, nOb, nDis int, undecided []string, sres []*StandinResult) string {
	s := fmt.Sprintf("%d of %d proof obligations generated from /repo's current source were discharged (unsat) by an SMT solver; each obligation is one contract clause, loop-invariant step, call precondition, safety condition or lemma.", nDis, nOb)
	if len(undecided) > 0 {
		s += fmt.Sprintf(" %d unit(s) left the supported subset and are reported as undecided, not proved.", len(undecided))
	}
	if len(sres) > 0 {
		s += fmt.Sprintf(" %d bounded stand-in(s) executed the real code over a stated finite domain; they are labelled bounded and are not counted as obligations.", len(sres))
	}
	return s
}

// manifestLevel: the level claimed for the property in MANIFEST.json (evidence and manifest must agree).
func manifestLevel(prop string) string {
	b, err := os.ReadFile(filepath.Join(verifDir, "MANIFEST.json"))
	if err != nil {
		return ""
	}
	var m struct {
		Checks []struct {
			PropertyID   string `json:"property_id"`
			LevelClaimed struct {
				Category string `json:"category"`
			} `json:"level_claimed"`
		} `json:"checks"`
	}
	if json.Unmarshal(b, &m) != nil {
		return ""
	}
	for _, c := range m.Checks {
		if c.PropertyID == prop {
			return c.LevelClaimed.Category
		}
	}
	return ""
}

// decidedBaseline: the units of a property that verified completely on the unchanged tree (written by
// `govc check -write-baseline`, committed under /verif/baseline).
func decidedBaseline(prop string) map[string]bool {
	m := map[string]bool{}
	b, err := os.ReadFile(filepath.Join(verifDir, "baseline", "decided_"+prop+".json"))
	if err != nil {
		return m
	}
	var names []string
	json.Unmarshal(b, &names)
	for _, n := range names {
		m[n] = true
	}
	return m
}
