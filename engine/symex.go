package main

// Forward symbolic execution of the typed AST.

import (
	"fmt"
	"go/ast"
	"go/constant"
	"go/token"
	"go/types"
	"math/big"
	"os"
	"path/filepath"
	"strings"
	"time"
)

type loopCtx struct {
	breaks []*State
	conts  []*State
}

type frame struct {
	fn    *ast.FuncDecl
	pkg   *Pkg
	rets  []*retRec
	loops []*loopCtx
	decl  *Decl // contract of the function being verified (top frame only)
	nloop int   // loop ordinal counter (source order)
}

type retRec struct {
	st *State
	v  Value
}

type Exec struct {
	w          *World
	fnName     string // name of the unit under verification
	decl       *Decl
	tags       []string
	frames     []*frame
	obls       []*Obligation
	side       []*Obligation // overflow / float-exactness side conditions (batched)
	kindN      map[string]int
	specMode   int
	entry      *State // state at function entry (for old())
	inputs     []InputVar
	heapN      int
	panicsIf   *Term // condition under which the function may panic (panics_iff)
	depth      int
	summarised map[string]bool
	external   map[string]bool
	assumed    []string
	loopInfo   map[ast.Stmt]int
	callees    map[string]bool
	onlyPost   bool
	usedLemmas map[string]bool
	ghosts     map[string]Value
	roundCache map[int]*Term
	roundFacts map[int][]*Term
	feasChecks int
	deadline   time.Time
	ghostUnit  bool
	widthDone  map[string][]*Term
	noInvFor   map[*types.Named]bool // types whose invariant is not assumed for parameters (object under construction)
}

func newExec(w *World, name string, d *Decl) *Exec {
	return &Exec{w: w, fnName: name, decl: d, kindN: map[string]int{}, summarised: map[string]bool{}, external: map[string]bool{}, loopInfo: map[ast.Stmt]int{}, callees: map[string]bool{}, usedLemmas: map[string]bool{}, ghosts: map[string]Value{}}
}

func (x *Exec) top() *frame { return x.frames[len(x.frames)-1] }

// inSpec: evaluating specification text (clauses, spec functions) or the body of a ghost function itself; real code
// executed in place from a ghost body (frames below it) gets the full set of safety obligations.
func (x *Exec) inSpec() bool {
	return x.specMode > 0 || (x.ghostUnit && len(x.frames) <= 1)
}
func (x *Exec) pkg() *Pkg   { return x.top().pkg }
func (x *Exec) info() *types.Info {
	return x.top().pkg.Info
}

func (x *Exec) pos(n ast.Node) token.Position { return x.w.Fset.Position(n.Pos()) }

// oblige records a proof obligation hyps(st) |- goal.
func (x *Exec) oblige(kind string, st *State, goal *Term, at ast.Node, clause string) {
	if x.inSpec() && kind != "assert" && !strings.HasPrefix(kind, "post") && kind != "pre" && kind != "lemma-pre" {
		return
	}
	if goal.isTrue() || st.dead() {
		return
	}
	if x.onlyPost && !strings.HasPrefix(kind, "post") && kind != "lemma-pre" {
		return
	}
	if x.panicsIf != nil && !strings.HasPrefix(kind, "post") && kind != "panics_iff.ret" && kind != "assert" && !strings.HasPrefix(kind, "inv") && kind != "typeinv" && kind != "shape" && kind != "frame" {
		goal = mkOr(goal, x.panicsIf)
	}
	x.kindN[kind]++
	o := &Obligation{Name: fmt.Sprintf("%s/%s#%d", x.fnName, kind, x.kindN[kind]), Kind: kind, Fn: x.fnName, Hyps: append([]*Term(nil), st.pc...), Goal: goal, Clause: clause, Inputs: x.inputs}
	if at != nil {
		o.Pos = x.pos(at)
	}
	if kind == "overflow" || kind == "fexact" {
		x.side = append(x.side, o)
		return
	}
	x.obls = append(x.obls, o)
}

// ---------------------------------------------------------------- fresh values

func (x *Exec) freshValue(name string, t types.Type, depth int, st *State, input bool) Value {
	switch u := t.Underlying().(type) {
	case *types.Basic:
		switch {
		case u.Info()&types.IsInteger != 0:
			v := freshVar(name, SInt)
			if input {
				x.inputs = append(x.inputs, InputVar{name, v})
			}
			if u.Kind() != types.UntypedInt {
				lo, hi := intRange(u)
				st.assume(mkLe(mkBig(lo), v))
				st.assume(mkLe(v, mkBig(hi)))
			}
			return IntV{v}
		case u.Info()&types.IsBoolean != 0:
			v := freshVar(name, SBool)
			if input {
				x.inputs = append(x.inputs, InputVar{name, v})
			}
			return BoolV{v}
		case u.Info()&types.IsFloat != 0:
			v := freshVar(name, SReal)
			if input {
				x.inputs = append(x.inputs, InputVar{name, v})
			}
			return FloatV{v}
		case u.Info()&types.IsString != 0:
			return &StrV{Opaque: true, Tag: name}
		}
	case *types.Pointer:
		if n, ok := u.Elem().(*types.Named); ok {
			if _, ok := n.Underlying().(*types.Struct); ok {
				return x.freshStruct(name, n, depth, st, input)
			}
		}
	case *types.Struct:
		if n, ok := t.(*types.Named); ok {
			return x.freshStruct(name, n, depth, st, input)
		}
	}
	return OpaqueV{T: t, Why: "fresh " + name}
}

func intRange(b *types.Basic) (*big.Int, *big.Int) {
	bits := uint(64)
	switch b.Kind() {
	case types.Int8, types.Uint8:
		bits = 8
	case types.Int16, types.Uint16:
		bits = 16
	case types.Int32, types.Uint32:
		bits = 32
	}
	if b.Info()&types.IsUnsigned != 0 {
		return big.NewInt(0), new(big.Int).Sub(new(big.Int).Lsh(big.NewInt(1), bits), big.NewInt(1))
	}
	h := new(big.Int).Lsh(big.NewInt(1), bits-1)
	return new(big.Int).Neg(h), new(big.Int).Sub(h, big.NewInt(1))
}

func (x *Exec) isModuleNamed(n *types.Named) bool {
	return n.Obj().Pkg() != nil && strings.HasPrefix(n.Obj().Pkg().Path(), modPath)
}

func (x *Exec) freshStruct(name string, n *types.Named, depth int, st *State, input bool) Value {
	if !x.isModuleNamed(n) {
		return OpaqueV{T: n, Why: "external struct " + n.String()}
	}
	if depth > 3 {
		return OpaqueV{T: n, Why: "depth"}
	}
	s := n.Underlying().(*types.Struct)
	v := &StructV{T: n, Nil: tFalse, F: map[string]Value{}}
	for i := 0; i < s.NumFields(); i++ {
		f := s.Field(i)
		fv := x.freshField(name+"."+f.Name(), n, f, depth+1, st, input)
		if child, ok := fv.(*StructV); ok {
			if _, isPtr := f.Type().Underlying().(*types.Pointer); isPtr && child.Nil.isFalse() {
				// a pointer field may be nil unless an invariant or precondition says otherwise
				nv := freshVar(name+"."+f.Name()+".nil", SBool)
				if input {
					x.inputs = append(x.inputs, InputVar{name + "." + f.Name() + ".nil", nv})
				}
				child.Nil = nv
			}
		}
		v.F[f.Name()] = fv
	}
	if !x.noInvFor[n] {
		x.assumeTypeInv(v, st)
	}
	return v
}

func (x *Exec) freshField(name string, owner *types.Named, f *types.Var, depth int, st *State, input bool) Value {
	if sh := shapeHook(x, owner, f, name, depth, st, input); sh != nil {
		return sh
	}
	return x.freshValue(name, f.Type(), depth, st, input)
}

func (x *Exec) typeInvDecl(n *types.Named) *Decl {
	if n.Obj().Pkg() == nil {
		return nil
	}
	return x.w.TypeInvs[n.Obj().Pkg().Name()+"."+n.Obj().Name()]
}

func (x *Exec) assumeTypeInv(v *StructV, st *State) {
	d := x.typeInvDecl(v.T)
	if d == nil {
		return
	}
	// deeply nested objects are only partly modelled; an invariant that cannot be evaluated on them is simply
	// not assumed (sound: fewer assumptions)
	defer func() {
		if r := recover(); r != nil {
			if _, ok := r.(unsupported); !ok {
				panic(r)
			}
		}
	}()
	pk := x.w.Pkgs[d.Pkg]
	for _, c := range d.Clauses {
		if c.Kind != "invariant" || c.FnName == "" {
			continue
		}
		t := x.evalClause(pk, c, []Value{v}, st)
		st.assume(mkOr(v.Nil, t))
	}
}

// evalClause evaluates a generated clause function on argument values in spec mode.
func (x *Exec) evalClause(pk *Pkg, c *Clause, args []Value, st *State) *Term {
	fd := pk.Funcs[c.FnName]
	if fd == nil {
		unsup("clause function %s missing", c.FnName)
	}
	x.specMode++
	defer func() { x.specMode-- }()
	v := x.inlineCall(pk, fd, args, st)
	b, ok := v.(BoolV)
	if !ok {
		if i, ok := v.(IntV); ok {
			return i.T
		}
		unsup("clause %s did not evaluate to bool", c.FnName)
	}
	return b.T
}

// ---------------------------------------------------------------- calls

func (x *Exec) inlineCall(pk *Pkg, fd *ast.FuncDecl, args []Value, st *State) Value {
	if x.depth > 24 {
		unsup("inline depth exceeded at %s", fd.Name.Name)
	}
	for _, f := range x.frames {
		if f.fn == fd {
			unsup("recursive call of %s", fd.Name.Name)
		}
	}
	if fd.Body == nil {
		unsup("no body for %s", fd.Name.Name)
	}
	fr := &frame{fn: fd, pkg: pk}
	x.frames = append(x.frames, fr)
	x.depth++
	defer func() { x.frames = x.frames[:len(x.frames)-1]; x.depth-- }()
	// bind params
	i := 0
	bind := func(id *ast.Ident) {
		if i >= len(args) {
			unsup("arity mismatch calling %s", fd.Name.Name)
		}
		if id.Name != "_" {
			if obj, ok := pk.Info.Defs[id].(*types.Var); ok {
				st.vars[obj] = args[i]
			}
		}
		i++
	}
	if fd.Recv != nil {
		for _, f := range fd.Recv.List {
			if len(f.Names) == 0 {
				i++
			}
			for _, n := range f.Names {
				bind(n)
			}
		}
	}
	for _, f := range fd.Type.Params.List {
		if len(f.Names) == 0 {
			i++
		}
		for _, n := range f.Names {
			bind(n)
		}
	}
	if fd.Type.Results != nil {
		for _, f := range fd.Type.Results.List {
			for _, n := range f.Names {
				if obj, ok := pk.Info.Defs[n].(*types.Var); ok {
					st.vars[obj] = x.zero(obj.Type())
				}
			}
		}
	}
	end := x.execBlock(fd.Body.List, st.clone())
	if end != nil && !end.dead() {
		// fell off the end: only valid for functions without results
		if fd.Type.Results != nil && len(fd.Type.Results.List) > 0 {
			unsup("missing return in %s", fd.Name.Name)
		}
		fr.rets = append(fr.rets, &retRec{st: end})
	}
	if len(fr.rets) == 0 {
		// every path panics
		*st = State{pc: []*Term{tFalse}, vars: st.vars, heap: st.heap}
		return x.zeroResult(fd, pk)
	}
	ms := fr.rets[0].st
	mv := fr.rets[0].v
	for _, r := range fr.rets[1:] {
		if r.st.dead() {
			continue
		}
		if ms.dead() {
			ms, mv = r.st, r.v
			continue
		}
		// merge r into (ms,mv)
		n := 0
		for n < len(ms.pc) && n < len(r.st.pc) && ms.pc[n] == r.st.pc[n] {
			n++
		}
		c := mkAnd(ms.pc[n:]...)
		if mv != nil || r.v != nil {
			// objects created on different return paths are merged as values; a single object keeps its identity
			// (so a ghost body may go on to mutate what a constructor returned)
			if a, ok := mv.(RefV); ok {
				if b, ok2 := r.v.(RefV); !ok2 || a.ID != b.ID {
					mv = x.freeze(mv, ms)
				}
			}
			if b, ok := r.v.(RefV); ok {
				if a, ok2 := mv.(RefV); !ok2 || a.ID != b.ID {
					r.v = x.freeze(r.v, r.st)
				}
			}
			mv = mergeValues(c, mv, r.v)
		}
		ms = mergeStates(ms, r.st)
	}
	*st = *ms
	return mv
}

func (x *Exec) zeroResult(fd *ast.FuncDecl, pk *Pkg) Value {
	if fd.Type.Results == nil || len(fd.Type.Results.List) == 0 {
		return nil
	}
	obj := pk.Info.Defs[fd.Name].(*types.Func)
	sig := obj.Type().(*types.Signature)
	if sig.Results().Len() == 1 {
		return x.zero(sig.Results().At(0).Type())
	}
	t := &TupleV{}
	for i := 0; i < sig.Results().Len(); i++ {
		t.Vs = append(t.Vs, x.zero(sig.Results().At(i).Type()))
	}
	return t
}

func (x *Exec) zero(t types.Type) Value {
	switch u := t.Underlying().(type) {
	case *types.Basic:
		switch {
		case u.Info()&types.IsInteger != 0:
			return IntV{mkInt(0)}
		case u.Info()&types.IsBoolean != 0:
			return BoolV{tFalse}
		case u.Info()&types.IsFloat != 0:
			return FloatV{mkRat(new(big.Rat))}
		case u.Info()&types.IsString != 0:
			return litStr("")
		}
	case *types.Pointer, *types.Slice, *types.Map, *types.Interface:
		return NilV{}
	}
	return OpaqueV{T: t, Why: "zero"}
}

// contract-based call
// outsideDomain: returned by contractCall when the call is statically outside the contract's precondition
type outsideDomain struct{}

func (x *Exec) contractCall(callee *types.Func, d *Decl, args []Value, st *State, at ast.Node) Value {
	pk := x.w.Pkgs[d.Pkg]
	sig := callee.Type().(*types.Signature)
	// named args only (clause functions skip unnamed / blank params)
	var cargs []Value
	ai := 0
	if sig.Recv() != nil {
		if sig.Recv().Name() != "" {
			cargs = append(cargs, args[ai])
		}
		x.requireNonNil(args[ai], st, at, "receiver of "+callee.Name())
		ai++
	}
	for i := 0; i < sig.Params().Len(); i++ {
		p := sig.Params().At(i)
		if p.Name() != "" && p.Name() != "_" {
			cargs = append(cargs, args[ai])
		}
		if _, isPtr := p.Type().Underlying().(*types.Pointer); isPtr {
			x.requireNonNil(args[ai], st, at, "argument "+p.Name()+" of "+callee.Name())
		}
		ai++
	}
	// a call whose precondition folds to false is outside the contract's domain (e.g. a constant mode flag the
	// contract does not cover): the body is executed instead of the summary
	for _, c := range d.Clauses {
		if c.Kind == "requires" && x.evalClause(pk, c, cargs, st).isFalse() {
			if os.Getenv("GOVC_DEBUG") != "" {
				fmt.Fprintf(os.Stderr, "DEBUG outside domain: %s requires %s\n", d.Name, c.Text)
			}
			return outsideDomain{}
		}
	}
	for _, c := range d.Clauses {
		switch c.Kind {
		case "requires":
			t := x.evalClause(pk, c, cargs, st)
			x.oblige("pre", st, t, at, d.Name+" requires "+c.Text)
		case "panics_iff":
			t := x.evalClause(pk, c, cargs, st)
			x.oblige("pre", st, mkNot(t), at, d.Name+" panics_iff "+c.Text)
			st.assume(mkNot(t))
		}
	}
	// a repeated call with identical arguments on the same path denotes the same value (A8: determinism)
	memoKey := ""
	if len(d.Modifies) == 0 && len(d.Memo) == 0 && sig.Results().Len() == 1 && os.Getenv("GOVC_NOMEMO") == "" {
		memoKey = callMemoKey(callee, args)
		if memoKey != "" {
			if v, ok := st.memo[memoKey]; ok {
				return v
			}
		}
	}
	// frame: fields the callee may modify are havocked (fresh value of the declared shape)
	for _, mf := range d.Modifies {
		parts := strings.SplitN(mf, ".", 2)
		if len(parts) != 2 {
			unsup("modifies clause %q", mf)
		}
		found := false
		ci := 0
		bindName := func(n string, v Value) {
			if n != parts[0] {
				return
			}
			found = true
			rv, ok := v.(RefV)
			if !ok {
				unsup("call of %s modifies %s, but the argument is not a heap object under construction", callee.Name(), mf)
			}
			stt := rv.T.Underlying().(*types.Struct)
			for i := 0; i < stt.NumFields(); i++ {
				if stt.Field(i).Name() == parts[1] {
					st.setField(rv.ID, parts[1], x.freshField("h_"+mf, rv.T, stt.Field(i), 1, st, false))
				}
			}
		}
		if sig.Recv() != nil && sig.Recv().Name() != "" {
			bindName(sig.Recv().Name(), cargs[ci])
			ci++
		}
		for i := 0; i < sig.Params().Len(); i++ {
			p := sig.Params().At(i)
			if p.Name() != "" && p.Name() != "_" {
				bindName(p.Name(), cargs[ci])
				ci++
			}
		}
		if !found {
			unsup("modifies clause %q names no parameter", mf)
		}
	}
	// result
	var res Value
	var rvals []Value
	name := "r_" + callee.Name()
	switch sig.Results().Len() {
	case 0:
	case 1:
		res = x.freshValue(name, sig.Results().At(0).Type(), 0, st, false)
		if sv, isStr := res.(*StrV); isStr && sv.Opaque {
			// a string result defined by `ensures result == E`: use E itself (strings have no SMT representation here)
			if dv := x.definingEnsures(pk, d, cargs, st); dv != nil {
				res = dv
			}
		}
		if s, ok := res.(*StructV); ok {
			s.Nil = tFalse
			if d.nullable() {
				s.Nil = freshVar(name+".nil", SBool)
			}
			// string fields defined by `ensures result.f == E`
			for _, fn := range sortedFieldNames(s.F) {
				if sv, isStr := s.F[fn].(*StrV); isStr && sv.Opaque {
					if dv := x.definingEnsuresField(pk, d, cargs, st, fn); dv != nil {
						s.F[fn] = dv
					}
				}
			}
		}
		if ov, isOp := res.(OpaqueV); isOp {
			opaqueSeq++
			ov.ID = opaqueSeq
			res = ov
		}
		rvals = []Value{res}
	default:
		t := &TupleV{}
		for i := 0; i < sig.Results().Len(); i++ {
			t.Vs = append(t.Vs, x.freshValue(fmt.Sprintf("%s%d", name, i+1), sig.Results().At(i).Type(), 0, st, false))
		}
		res = t
		rvals = t.Vs
	}
	// ghost variables of the callee are unknown to the caller: fresh values
	var gvals []Value
	for _, c := range d.Clauses {
		if c.Kind == "ghost" {
			switch c.SplitHi {
			case "int":
				gvals = append(gvals, IntV{freshVar("g_"+c.SplitLo, SInt)})
			case "bool":
				gvals = append(gvals, BoolV{freshVar("g_"+c.SplitLo, SBool)})
			case "float64":
				gvals = append(gvals, FloatV{freshVar("g_"+c.SplitLo, SReal)})
			default:
				// a ghost of a library struct type: an unknown object of that type (with its invariant)
				tn := strings.TrimPrefix(c.SplitHi, "*")
				if obj := pk.Types.Scope().Lookup(tn); obj != nil {
					var gt types.Type = obj.Type()
					if strings.HasPrefix(c.SplitHi, "*") {
						gt = types.NewPointer(gt)
					}
					gvals = append(gvals, x.freshValue("g_"+c.SplitLo, gt, 0, st, false))
				} else {
					gvals = append(gvals, FloatV{freshVar("g_"+c.SplitLo, SReal)})
				}
			}
		}
	}
	for _, c := range d.Clauses {
		if c.Kind == "ensures" || c.Kind == "derived" || c.Kind == "defines" {
			t := x.evalClause(pk, c, append(append(append([]Value{}, cargs...), gvals...), rvals...), st)
			st.assume(t)
		}
	}
	if memoKey != "" {
		if _, isRef := res.(RefV); !isRef {
			if st.memo == nil {
				st.memo = map[string]Value{}
			}
			st.memo[memoKey] = res
		}
	}
	return res
}

// callMemoKey: identity of a call (callee and argument values); "" when an argument has no stable identity.
func callMemoKey(callee *types.Func, args []Value) string {
	var sb strings.Builder
	sb.WriteString(callee.FullName())
	for _, a := range args {
		switch v := a.(type) {
		case IntV:
			fmt.Fprintf(&sb, "|i%d", v.T.id)
		case BoolV:
			fmt.Fprintf(&sb, "|b%d", v.T.id)
		case FloatV:
			fmt.Fprintf(&sb, "|f%d", v.T.id)
		case *StructV:
			fmt.Fprintf(&sb, "|s%p", v)
		case NilV:
			sb.WriteString("|nil")
		case *StrV:
			if l, ok := v.isLit(); ok {
				fmt.Fprintf(&sb, "|l%q", l)
			} else if v.Alts != nil && v.Fmt == nil && v.Cases == nil && !v.Opaque {
				// a finite choice is identified by its alternatives (hash-consed conditions)
				sb.WriteString("|a")
				for _, a := range v.Alts {
					fmt.Fprintf(&sb, "%d:%q,", a.Cond.id, a.S)
				}
			} else {
				fmt.Fprintf(&sb, "|t%p", v)
			}
		default:
			return ""
		}
	}
	return sb.String()
}

func (x *Exec) requireNonNil(v Value, st *State, at ast.Node, what string) {
	switch s := v.(type) {
	case *StructV:
		x.oblige("nil", st, mkNot(s.Nil), at, what+" != nil")
	case NilV:
		x.oblige("nil", st, tFalse, at, what+" != nil")
	}
}

// ---------------------------------------------------------------- statements

func (x *Exec) execBlock(stmts []ast.Stmt, st *State) *State {
	topLevel := len(x.frames) == 1 && x.decl != nil && x.top().fn != nil && x.top().fn.Body != nil && len(stmts) > 0 && len(x.top().fn.Body.List) > 0 && &stmts[0] == &x.top().fn.Body.List[0]
	for _, s := range stmts {
		if st == nil || st.dead() {
			return nil
		}
		st = x.execStmt(s, st)
		if topLevel && st != nil && !st.dead() {
			x.applyHints(s, st)
		}
	}
	return st
}

// applyHints: hint / cut clauses anchored at top-level statement s of the function under verification.
func (x *Exec) applyHints(s ast.Stmt, st *State) {
	fd := x.top().fn
	pk := x.pkg()
	for _, c := range x.decl.Clauses {
		switch c.Kind {
		case "hint", "cut", "ghost":
		case "use":
			if c.SplitVar == "" {
				continue
			}
		default:
			continue
		}
		if c.FnName == "" {
			continue
		}
		if c.Kind == "cut" && x.onlyPost {
			continue // specialised passes fold constants and keep full precision
		}
		// the anchor is found in the re-parsed AST by the same rule as at generation time
		if anchorStmt(fd, c.SplitVar) != s {
			continue
		}
		bindArgs := func(fn string) []Value {
			cf := pk.Funcs[fn]
			var args []Value
			for _, f := range cf.Type.Params.List {
				for _, n := range f.Names {
					if g, ok := x.ghostValue(n.Name); ok {
						args = append(args, g)
						continue
					}
					args = append(args, x.lookupTopLevelVar(n.Name, fd, st))
				}
			}
			return args
		}
		switch c.Kind {
		case "ghost":
			x.ghosts[c.SplitLo] = x.evalClauseV(pk, c, bindArgs(c.FnName), st)
			continue
		case "use":
			rc := &Clause{Kind: "use", FnName: c.FnName + "_req", Text: c.Text}
			if c.Cond {
				st.assume(mkImplies(x.evalClause(pk, rc, bindArgs(rc.FnName), st), x.evalClause(pk, c, bindArgs(c.FnName), st)))
			} else {
				sm := x.specMode
				x.specMode = 0
				x.oblige("lemma-pre", st, x.evalClause(pk, rc, bindArgs(rc.FnName), st), s, "requires of lemma instance "+c.Text)
				x.specMode = sm
				st.assume(x.evalClause(pk, c, bindArgs(c.FnName), st))
			}
			x.usedLemmas[strings.TrimSpace(c.Text[:strings.Index(c.Text, "(")])] = true
			continue
		}
		t := x.evalClause(pk, c, bindArgs(c.FnName), st)
		sm := x.specMode
		x.specMode = 0
		x.oblige("hint", st, t, s, c.Kind+" "+c.SplitVar+": "+c.Text)
		x.specMode = sm
		if c.Kind == "cut" {
			sc := pk.Info.Scopes[fd.Type]
			vn := c.SplitVar
			if k := strings.Index(vn, "#"); k >= 0 {
				vn = vn[:k]
			}
			if strings.Contains(vn, ".") {
				unsup("cut on a field (%s): use hint", vn)
			}
			if obj, ok := sc.Lookup(vn).(*types.Var); ok {
				st.vars[obj] = x.havoc(vn, st.vars[obj], obj.Type(), st)
				t = x.evalClause(pk, c, bindArgs(c.FnName), st)
			}
		}
		st.assume(t)
	}
}

// ghostValue: value of a declared ghost variable (zero of its type before its anchor is reached)
func (x *Exec) ghostValue(name string) (Value, bool) {
	if x.decl == nil {
		return nil, false
	}
	for _, c := range x.decl.Clauses {
		if c.Kind == "ghost" && c.SplitLo == name {
			if v, ok := x.ghosts[name]; ok {
				return v, true
			}
			switch c.SplitHi {
			case "int":
				return IntV{mkInt(0)}, true
			case "bool":
				return BoolV{tFalse}, true
			default:
				return FloatV{mkRat(new(big.Rat))}, true
			}
		}
	}
	return nil, false
}

// evalClauseV: like evalClause, but returns the value (ghost definitions may be int, bool or float64)
func (x *Exec) evalClauseV(pk *Pkg, c *Clause, args []Value, st *State) Value {
	fd := pk.Funcs[c.FnName]
	if fd == nil {
		unsup("clause function %s missing", c.FnName)
	}
	x.specMode++
	defer func() { x.specMode-- }()
	return x.inlineCall(pk, fd, args, st)
}

func (x *Exec) lookupTopLevelVar(name string, fd *ast.FuncDecl, st *State) Value {
	sc := x.pkg().Info.Scopes[fd.Type]
	if obj, ok := sc.Lookup(name).(*types.Var); ok {
		if v, ok := st.vars[obj]; ok {
			return v
		}
	}
	unsup("hint refers to %s, which has no value yet", name)
	return nil
}

func (x *Exec) execStmt(s ast.Stmt, st *State) *State {
	if !x.deadline.IsZero() && time.Now().After(x.deadline) {
		unsup("symbolic execution budget of this unit exceeded (at %s)", x.pos(s))
	}
	switch s := s.(type) {
	case *ast.BlockStmt:
		return x.execBlock(s.List, st)
	case *ast.ExprStmt:
		if call, ok := s.X.(*ast.CallExpr); ok {
			if id, ok := call.Fun.(*ast.Ident); ok && id.Name == "panic" {
				if _, isB := x.info().Uses[id].(*types.Builtin); isB {
					x.oblige("nopanic", st, tFalse, s, "panic reached")
					return nil
				}
			}
		}
		x.eval(s.X, st)
		return st
	case *ast.AssignStmt:
		x.execAssign(s, st)
		return st
	case *ast.IncDecStmt:
		one := ast.Expr(&ast.BasicLit{Kind: token.INT, Value: "1"})
		cur := x.eval(s.X, st)
		iv, ok := cur.(IntV)
		if !ok {
			unsup("++/-- on non-int")
		}
		_ = one
		var r *Term
		if s.Tok == token.INC {
			r = mkAdd(iv.T, mkInt(1))
		} else {
			r = mkSub(iv.T, mkInt(1))
		}
		x.overflowCheck(r, x.info().TypeOf(s.X), st, s)
		x.assignTo(s.X, IntV{r}, st)
		return st
	case *ast.DeclStmt:
		gd := s.Decl.(*ast.GenDecl)
		if gd.Tok == token.VAR {
			for _, sp := range gd.Specs {
				vs := sp.(*ast.ValueSpec)
				for i, n := range vs.Names {
					obj, _ := x.info().Defs[n].(*types.Var)
					if obj == nil {
						continue
					}
					if i < len(vs.Values) {
						st.vars[obj] = x.eval(vs.Values[i], st)
					} else {
						st.vars[obj] = x.zero(obj.Type())
					}
				}
			}
		}
		return st
	case *ast.ReturnStmt:
		fr := x.top()
		var v Value
		switch len(s.Results) {
		case 0:
			// named results
			if fr.fn.Type.Results != nil {
				var vs []Value
				for _, f := range fr.fn.Type.Results.List {
					for _, n := range f.Names {
						if obj, ok := fr.pkg.Info.Defs[n].(*types.Var); ok {
							vs = append(vs, st.vars[obj])
						}
					}
				}
				if len(vs) == 1 {
					v = vs[0]
				} else if len(vs) > 1 {
					v = &TupleV{Vs: vs}
				}
			}
		case 1:
			v = x.eval(s.Results[0], st)
		default:
			t := &TupleV{}
			for _, r := range s.Results {
				t.Vs = append(t.Vs, x.eval(r, st))
			}
			v = t
		}
		if st.dead() {
			return nil
		}
		if len(x.frames) == 1 {
			// the unit under verification: results are judged as values
			v = x.freeze(v, st)
		}
		fr.rets = append(fr.rets, &retRec{st: st, v: v})
		return nil
	case *ast.IfStmt:
		if s.Init != nil {
			st = x.execStmt(s.Init, st)
			if st == nil {
				return nil
			}
		}
		c := x.evalBool(s.Cond, st)
		if st.dead() {
			return nil
		}
		var r1, r2 *State
		if !c.isFalse() {
			s1 := st.clone()
			s1.assume(c)
			r1 = x.execBlock(s.Body.List, s1)
		}
		if !c.isTrue() {
			s2 := st.clone()
			s2.assume(mkNot(c))
			if s.Else != nil {
				r2 = x.execStmt(s.Else, s2)
			} else {
				r2 = s2
			}
		}
		return mergeStates(r1, r2)
	case *ast.ForStmt:
		return x.execFor(s, st)
	case *ast.RangeStmt:
		return x.execRange(s, st)
	case *ast.BranchStmt:
		fr := x.top()
		if s.Label != nil {
			unsup("labelled branch")
		}
		switch s.Tok {
		case token.BREAK:
			if len(fr.loops) == 0 {
				unsup("break outside loop")
			}
			l := fr.loops[len(fr.loops)-1]
			l.breaks = append(l.breaks, st)
			return nil
		case token.CONTINUE:
			l := fr.loops[len(fr.loops)-1]
			l.conts = append(l.conts, st)
			return nil
		}
		unsup("branch statement %s", s.Tok)
	case *ast.SwitchStmt:
		return x.execSwitch(s, st)
	case *ast.EmptyStmt:
		return st
	}
	unsup("statement %T", s)
	return nil
}

func (x *Exec) execSwitch(s *ast.SwitchStmt, st *State) *State {
	if s.Init != nil {
		st = x.execStmt(s.Init, st)
	}
	var tag Value
	if s.Tag != nil {
		tag = x.eval(s.Tag, st)
	}
	// switch acts as a breakable construct
	fr := x.top()
	lc := &loopCtx{}
	fr.loops = append(fr.loops, lc)
	var out *State
	rest := st
	var def *ast.CaseClause
	for _, cc := range s.Body.List {
		c := cc.(*ast.CaseClause)
		if c.List == nil {
			def = c
			continue
		}
		if rest == nil || rest.dead() {
			break
		}
		cond := tFalse
		for _, e := range c.List {
			if tag != nil {
				cond = mkOr(cond, x.valuesEqual(tag, x.eval(e, rest), rest))
			} else {
				cond = mkOr(cond, x.evalBool(e, rest))
			}
		}
		if !cond.isFalse() {
			s1 := rest.clone()
			s1.assume(cond)
			out = mergeStates(out, x.execBlock(c.Body, s1))
		}
		r2 := rest.clone()
		r2.assume(mkNot(cond))
		rest = r2
	}
	if rest != nil && !rest.dead() {
		if def != nil {
			out = mergeStates(out, x.execBlock(def.Body, rest))
		} else {
			out = mergeStates(out, rest)
		}
	}
	fr.loops = fr.loops[:len(fr.loops)-1]
	for _, b := range lc.breaks {
		out = mergeStates(out, b)
	}
	if len(lc.conts) > 0 {
		// continue inside switch belongs to the enclosing loop
		if len(fr.loops) == 0 {
			unsup("continue outside loop")
		}
		l := fr.loops[len(fr.loops)-1]
		l.conts = append(l.conts, lc.conts...)
	}
	return out
}

const unrollCap = 400

func (x *Exec) loopOrdinal(s ast.Stmt) int {
	fr := x.top()
	if len(x.frames) != 1 {
		return 0
	}
	if n, ok := x.loopInfo[s]; ok {
		return n
	}
	_ = fr
	return 0
}

func (x *Exec) loopClauses(ord int, kind string) []*Clause {
	if ord == 0 || x.decl == nil {
		return nil
	}
	var cs []*Clause
	for _, c := range x.decl.Clauses {
		if c.Kind == kind && c.Loop == ord && c.FnName != "" {
			cs = append(cs, c)
		}
	}
	return cs
}

// forEachList recognises `for i := L.Front(); i != nil; i = i.Next() { body }`.
func (x *Exec) forEachList(s *ast.ForStmt) (*ast.Ident, ast.Expr, bool) {
	as, ok := s.Init.(*ast.AssignStmt)
	if !ok || len(as.Lhs) != 1 || len(as.Rhs) != 1 {
		return nil, nil, false
	}
	id, ok := as.Lhs[0].(*ast.Ident)
	if !ok {
		return nil, nil, false
	}
	call, ok := as.Rhs[0].(*ast.CallExpr)
	if !ok {
		return nil, nil, false
	}
	se, ok := call.Fun.(*ast.SelectorExpr)
	if !ok || se.Sel.Name != "Front" || len(call.Args) != 0 {
		return nil, nil, false
	}
	cond, ok := s.Cond.(*ast.BinaryExpr)
	if !ok || cond.Op != token.NEQ {
		return nil, nil, false
	}
	if ci, ok := cond.X.(*ast.Ident); !ok || ci.Name != id.Name {
		return nil, nil, false
	}
	if ni, ok := cond.Y.(*ast.Ident); !ok || ni.Name != "nil" {
		return nil, nil, false
	}
	ps, ok := s.Post.(*ast.AssignStmt)
	if !ok || len(ps.Lhs) != 1 || len(ps.Rhs) != 1 {
		return nil, nil, false
	}
	if pi, ok := ps.Lhs[0].(*ast.Ident); !ok || pi.Name != id.Name {
		return nil, nil, false
	}
	pc, ok := ps.Rhs[0].(*ast.CallExpr)
	if !ok {
		return nil, nil, false
	}
	pse, ok := pc.Fun.(*ast.SelectorExpr)
	if !ok || pse.Sel.Name != "Next" {
		return nil, nil, false
	}
	if pi, ok := pse.X.(*ast.Ident); !ok || pi.Name != id.Name {
		return nil, nil, false
	}
	return id, se.X, true
}

func (x *Exec) execForEachList(s *ast.ForStmt, id *ast.Ident, lexpr ast.Expr, st *State) *State {
	lval := x.eval(lexpr, st)
	l, ok := lval.(*ListV)
	if !ok {
		unsup("for-each over %T at %s", lval, x.pos(s))
	}
	x.requireListNonNil(l, st, s)
	obj, _ := x.info().Defs[id].(*types.Var)
	if obj == nil {
		unsup("for-each cursor is not a new variable")
	}
	// the body must not modify the cursor
	fr := x.top()
	var exit *State
	for k := range l.Elems {
		if st == nil || st.dead() {
			break
		}
		c := l.cond(k)
		if c.isFalse() {
			continue
		}
		var skip *State
		if !c.isTrue() {
			skip = st.clone()
			skip.assume(mkNot(c))
			st.assume(c)
		}
		full := &ListV{Elems: l.Elems}
		st.vars[obj] = &ElemV{L: full, Idx: k}
		lc := &loopCtx{}
		fr.loops = append(fr.loops, lc)
		body := x.execBlock(s.Body.List, st)
		fr.loops = fr.loops[:len(fr.loops)-1]
		for _, b := range lc.breaks {
			exit = mergeStates(exit, b)
		}
		for _, cst := range lc.conts {
			body = mergeStates(body, cst)
		}
		st = mergeStates(body, skip)
	}
	if st != nil {
		st.vars[obj] = &ElemV{L: &ListV{}, Idx: 0}
	}
	return mergeStates(exit, st)
}

func (x *Exec) execFor(s *ast.ForStmt, st *State) *State {
	if id, lexpr, ok := x.forEachList(s); ok && len(x.loopClauses(x.loopOrdinal(s), "invariant")) == 0 {
		return x.execForEachList(s, id, lexpr, st)
	}
	if s.Init != nil {
		st = x.execStmt(s.Init, st)
		if st == nil {
			return nil
		}
	}
	ord := x.loopOrdinal(s)
	invs := x.loopClauses(ord, "invariant")
	if len(invs) > 0 {
		return x.execLoopInv(s, s.Cond, s.Body, s.Post, ord, invs, st)
	}
	fr := x.top()
	var exit *State
	for iter := 0; ; iter++ {
		if st == nil || st.dead() {
			break
		}
		if iter > unrollCap {
			unsup("loop at %s exceeds the unrolling cap; it needs an invariant", x.pos(s))
		}
		c := tTrue
		if s.Cond != nil {
			c = x.evalBool(s.Cond, st)
		}
		if c.isFalse() {
			exit = mergeStates(exit, st)
			break
		}
		if !c.isTrue() {
			if iter > 64 {
				unsup("loop at %s has a symbolic condition and no invariant", x.pos(s))
			}
			e := st.clone()
			e.assume(mkNot(c))
			exit = mergeStates(exit, e)
			st.assume(c)
			if iter >= 1 && !x.feasible(st, c, iter) {
				break // another iteration is impossible: unrolling is complete
			}
		} else if s.Cond == nil && iter >= 1 && !x.feasible(st, nil, iter) {
			break
		}
		lc := &loopCtx{}
		fr.loops = append(fr.loops, lc)
		body := x.execBlock(s.Body.List, st)
		fr.loops = fr.loops[:len(fr.loops)-1]
		for _, b := range lc.breaks {
			exit = mergeStates(exit, b)
		}
		for _, cst := range lc.conts {
			body = mergeStates(body, cst)
		}
		st = body
		if st != nil && s.Post != nil {
			st = x.execStmt(s.Post, st)
		}
		if s.Cond == nil && len(lc.breaks) == 0 && st != nil {
			unsup("infinite loop without break at %s", x.pos(s))
		}
		if !c.isTrue() && iter > 64 {
			unsup("loop at %s does not fold", x.pos(s))
		}
	}
	return exit
}

// feasible asks a solver whether the path condition is satisfiable (unknown counts as feasible).
// Used only to stop unrolling loops whose bound is symbolic but small; an unsat answer is a proof that
// no further iteration exists, so the unrolling is complete, not bounded.
func (x *Exec) feasible(st *State, cond *Term, iter int) bool {
	if st.dead() {
		return false
	}
	x.feasChecks++
	dir, err := os.MkdirTemp("", "govc-feas-")
	if err != nil {
		return true
	}
	defer os.RemoveAll(dir)
	if cond != nil {
		// cheap attempt first: only the hypotheses that share a symbol with the loop condition
		// (a subset of the hypotheses is sound for showing infeasibility)
		syms := symbolsOf(cond)
		var sub []*Term
		for _, h := range st.pc {
			for sname := range symbolsOf(h) {
				if syms[sname] {
					sub = append(sub, h)
					break
				}
			}
		}
		f := filepath.Join(dir, "q0.smt2")
		os.WriteFile(f, []byte(x.w.smtText(sub, tFalse, nil, nil)), 0644)
		if r := raceSolvers(f, 2); r.status == "unsat" {
			return false
		} else if r.status == "sat" && len(sub) == len(st.pc) {
			return true
		}
		// the full query is expensive on long paths; "feasible" is the safe answer (more unrolling),
		// so it is asked only now and then and always beyond 32 iterations
		if iter < 32 && iter%8 != 0 {
			return true
		}
	}
	txt := x.w.smtText(st.pc, tFalse, nil, nil)
	f := filepath.Join(dir, "q.smt2")
	os.WriteFile(f, []byte(txt), 0644)
	r := raceSolvers(f, 5)
	return r.status != "unsat"
}

func symbolsOf(t *Term) map[string]bool {
	m := map[string]bool{}
	seen := map[int]bool{}
	var rec func(t *Term)
	rec = func(t *Term) {
		if seen[t.id] {
			return
		}
		seen[t.id] = true
		if t.Op == "var" {
			m[t.Name] = true
		}
		for _, a := range t.Args {
			rec(a)
		}
	}
	rec(t)
	return m
}

// assigned variables of a statement list (syntactic), restricted to variables declared outside
func (x *Exec) assignedVars(nodes []ast.Node, outer *State) []*types.Var {
	seen := map[*types.Var]bool{}
	var out []*types.Var
	add := func(e ast.Expr) {
		for {
			switch y := e.(type) {
			case *ast.ParenExpr:
				e = y.X
				continue
			case *ast.IndexExpr:
				e = y.X
				continue
			case *ast.SelectorExpr:
				e = y.X
				continue
			}
			break
		}
		if id, ok := e.(*ast.Ident); ok {
			var v *types.Var
			if o, ok := x.info().Uses[id].(*types.Var); ok {
				v = o
			} else if o, ok := x.info().Defs[id].(*types.Var); ok {
				v = o
			}
			if v != nil && !seen[v] {
				if _, live := outer.vars[v]; live {
					seen[v] = true
					out = append(out, v)
				}
			}
		}
	}
	for _, n := range nodes {
		if n == nil {
			continue
		}
		ast.Inspect(n, func(n ast.Node) bool {
			switch y := n.(type) {
			case *ast.AssignStmt:
				for _, l := range y.Lhs {
					add(l)
				}
			case *ast.IncDecStmt:
				add(y.X)
			case *ast.RangeStmt:
				if y.Key != nil {
					add(y.Key)
				}
				if y.Value != nil {
					add(y.Value)
				}
			case *ast.CallExpr:
				// l.PushBack(..) mutates l
				if se, ok := y.Fun.(*ast.SelectorExpr); ok {
					if se.Sel.Name == "PushBack" || se.Sel.Name == "PushFront" {
						add(se.X)
					}
				}
			}
			return true
		})
	}
	return out
}

func (x *Exec) evalLoopClause(c *Clause, s ast.Stmt, st *State) *Term {
	// bind clause-function parameters by name from the variables visible at the loop
	pk := x.pkg()
	fd := pk.Funcs[c.FnName]
	var args []Value
	for _, f := range fd.Type.Params.List {
		for _, n := range f.Names {
			v := x.lookupLocalByName(n.Name, s, st)
			args = append(args, v)
		}
	}
	return x.evalClause(pk, c, args, st)
}

func (x *Exec) lookupLocalByName(name string, at ast.Node, st *State) Value {
	info := x.info()
	sc := info.Scopes[at]
	if sc == nil {
		sc = x.pkg().Types.Scope().Innermost(at.Pos())
	}
	for s := sc; s != nil; s = s.Parent() {
		if obj := s.Lookup(name); obj != nil {
			if v, ok := obj.(*types.Var); ok {
				if val, ok := st.vars[v]; ok {
					return val
				}
			}
		}
	}
	unsup("invariant refers to %s, which is not live at the loop", name)
	return nil
}

func (x *Exec) execLoopInv(s ast.Stmt, cond ast.Expr, body *ast.BlockStmt, post ast.Stmt, ord int, invs []*Clause, st *State) *State {
	fr := x.top()
	// 1. invariant holds on entry
	for _, c := range invs {
		t := x.evalLoopClause(c, s, st)
		x.oblige(fmt.Sprintf("inv%d.init", ord), st, t, s, "loop "+fmt.Sprint(ord)+" invariant "+c.Text)
	}
	// 2. havoc
	av := x.assignedVars([]ast.Node{body, post, cond}, st)
	for _, v := range av {
		st.vars[v] = x.havoc(v.Name(), st.vars[v], v.Type(), st)
	}
	for _, c := range invs {
		st.assume(x.evalLoopClause(c, s, st))
	}
	cnd := tTrue
	if cond != nil {
		cnd = x.evalBool(cond, st)
	}
	exit := st.clone()
	exit.assume(mkNot(cnd))
	if cnd.isTrue() {
		exit = nil
	}
	// 3. body
	bs := st.clone()
	bs.assume(cnd)
	decs := x.loopClauses(ord, "decreases")
	var dec0 []*Term
	for _, c := range decs {
		dec0 = append(dec0, x.evalLoopClause(c, s, bs))
	}
	lc := &loopCtx{}
	fr.loops = append(fr.loops, lc)
	end := x.execBlock(body.List, bs)
	fr.loops = fr.loops[:len(fr.loops)-1]
	for _, cst := range lc.conts {
		end = mergeStates(end, cst)
	}
	if end != nil && post != nil {
		end = x.execStmt(post, end)
	}
	if end != nil && !end.dead() {
		for _, c := range invs {
			t := x.evalLoopClause(c, s, end)
			x.oblige(fmt.Sprintf("inv%d.preserve", ord), end, t, s, "loop "+fmt.Sprint(ord)+" invariant "+c.Text)
		}
		for i, c := range decs {
			d1 := x.evalLoopClause(c, s, end)
			x.oblige(fmt.Sprintf("dec%d", ord), end, mkAnd(mkLt(d1, dec0[i]), mkGe(dec0[i], mkInt(0))), s, "loop "+fmt.Sprint(ord)+" decreases "+c.Text)
		}
	}
	for _, b := range lc.breaks {
		exit = mergeStates(exit, b)
	}
	return exit
}

func (x *Exec) havoc(name string, old Value, t types.Type, st *State) Value {
	switch o := old.(type) {
	case IntV, BoolV, FloatV:
		return x.freshValue(name, t, 0, st, false)
	case *StructV:
		v := x.freshValue(name, t, 0, st, false)
		if s, ok := v.(*StructV); ok {
			s.Nil = freshVar(name+".nil", SBool)
		}
		return v
	case NilV:
		v := x.freshValue(name, t, 0, st, false)
		if s, ok := v.(*StructV); ok {
			s.Nil = freshVar(name+".nil", SBool)
		}
		return v
	case *ListV:
		_ = o
		unsup("loop modifies list %s: invariant-based reasoning about lists is not supported", name)
	}
	unsup("cannot havoc %s of type %T", name, old)
	return nil
}

func (x *Exec) execRange(s *ast.RangeStmt, st *State) *State {
	coll := x.eval(s.X, st)
	fr := x.top()
	var elems []Value
	var keys []Value
	var slen *Term
	switch c := coll.(type) {
	case *SliceV:
		elems = c.Elems
		for i := range elems {
			keys = append(keys, IntV{mkInt(int64(i))})
		}
		slen = c.Len
	case NilV:
	default:
		unsup("range over %T at %s", coll, x.pos(s))
	}
	var exit *State
	for i := range elems {
		if st == nil || st.dead() {
			break
		}
		if slen != nil {
			// element i exists only when i < len
			c := mkLt(mkInt(int64(i)), slen)
			if c.isFalse() {
				break
			}
			if !c.isTrue() {
				e := st.clone()
				e.assume(mkNot(c))
				exit = mergeStates(exit, e)
				st.assume(c)
			}
		}
		if s.Key != nil {
			x.bindRangeVar(s.Key, keys[i], s.Tok, st)
		}
		if s.Value != nil {
			x.bindRangeVar(s.Value, elems[i], s.Tok, st)
		}
		lc := &loopCtx{}
		fr.loops = append(fr.loops, lc)
		body := x.execBlock(s.Body.List, st)
		fr.loops = fr.loops[:len(fr.loops)-1]
		for _, b := range lc.breaks {
			exit = mergeStates(exit, b)
		}
		for _, cst := range lc.conts {
			body = mergeStates(body, cst)
		}
		st = body
	}
	return mergeStates(exit, st)
}

func (x *Exec) bindRangeVar(e ast.Expr, v Value, tok token.Token, st *State) {
	id, ok := e.(*ast.Ident)
	if !ok {
		unsup("range variable is not an identifier")
	}
	if id.Name == "_" {
		return
	}
	if tok == token.DEFINE {
		if obj, ok := x.info().Defs[id].(*types.Var); ok {
			st.vars[obj] = v
			return
		}
	}
	x.assignTo(e, v, st)
}

func (x *Exec) execAssign(s *ast.AssignStmt, st *State) {
	if len(s.Lhs) == len(s.Rhs) {
		vals := make([]Value, len(s.Rhs))
		for i, r := range s.Rhs {
			if s.Tok != token.ASSIGN && s.Tok != token.DEFINE {
				// op=
				cur := x.eval(s.Lhs[i], st)
				rv := x.eval(r, st)
				op := opOfAssign(s.Tok)
				vals[i] = x.binop(op, cur, rv, x.info().TypeOf(s.Lhs[i]), st, s)
			} else {
				vals[i] = x.eval(r, st)
			}
		}
		for i, l := range s.Lhs {
			x.assignLhs(l, vals[i], s.Tok == token.DEFINE, st)
		}
		return
	}
	if len(s.Rhs) == 1 {
		// v, ok := m[k]   /   a, b := f()
		if ie, ok := s.Rhs[0].(*ast.IndexExpr); ok && len(s.Lhs) == 2 {
			v, present := x.mapLookup(ie, st)
			x.assignLhs(s.Lhs[0], v, s.Tok == token.DEFINE, st)
			x.assignLhs(s.Lhs[1], BoolV{present}, s.Tok == token.DEFINE, st)
			return
		}
		if ta, ok := s.Rhs[0].(*ast.TypeAssertExpr); ok && len(s.Lhs) == 2 {
			v, okT := x.typeAssert(ta, st, true)
			x.assignLhs(s.Lhs[0], v, s.Tok == token.DEFINE, st)
			x.assignLhs(s.Lhs[1], BoolV{okT}, s.Tok == token.DEFINE, st)
			return
		}
		v := x.eval(s.Rhs[0], st)
		if t, ok := v.(*TupleV); ok && len(t.Vs) == len(s.Lhs) {
			for i, l := range s.Lhs {
				x.assignLhs(l, t.Vs[i], s.Tok == token.DEFINE, st)
			}
			return
		}
	}
	unsup("assignment form at %s", x.pos(s))
}

func opOfAssign(t token.Token) token.Token {
	switch t {
	case token.ADD_ASSIGN:
		return token.ADD
	case token.SUB_ASSIGN:
		return token.SUB
	case token.MUL_ASSIGN:
		return token.MUL
	case token.QUO_ASSIGN:
		return token.QUO
	case token.REM_ASSIGN:
		return token.REM
	}
	unsup("assignment operator %s", t)
	return token.ILLEGAL
}

func (x *Exec) assignLhs(l ast.Expr, v Value, define bool, st *State) {
	if id, ok := l.(*ast.Ident); ok {
		if id.Name == "_" {
			return
		}
		if define {
			if obj, ok := x.info().Defs[id].(*types.Var); ok {
				st.vars[obj] = v
				return
			}
		}
	}
	x.assignTo(l, v, st)
}

func (x *Exec) assignTo(l ast.Expr, v Value, st *State) {
	switch e := l.(type) {
	case *ast.ParenExpr:
		x.assignTo(e.X, v, st)
		return
	case *ast.Ident:
		obj, ok := x.info().Uses[e].(*types.Var)
		if !ok {
			obj, ok = x.info().Defs[e].(*types.Var)
		}
		if !ok {
			unsup("assignment to %s", e.Name)
		}
		if obj.Parent() == obj.Pkg().Scope() {
			unsup("assignment to package-level variable %s", e.Name)
		}
		st.vars[obj] = v
		return
	case *ast.SelectorExpr:
		base := x.eval(e.X, st)
		switch b := base.(type) {
		case RefV:
			st.setField(b.ID, e.Sel.Name, x.freeze(v, st))
			return
		case *StructV:
			// value semantics: rebuild and store back
			x.oblige("nil", st, mkNot(b.Nil), l, "write through nil pointer")
			n := &StructV{T: b.T, Nil: b.Nil, F: map[string]Value{}}
			for k, fv := range b.F {
				n.F[k] = fv
			}
			n.F[e.Sel.Name] = v
			x.assignTo(e.X, n, st)
			return
		}
		unsup("field assignment on %T", base)
	case *ast.IndexExpr:
		base := x.eval(e.X, st)
		switch b := base.(type) {
		case *SliceV:
			idx := x.evalInt(e.Index, st)
			x.oblige("index", st, mkAnd(mkLe(mkInt(0), idx), mkLt(idx, mkInt(int64(len(b.Elems))))), l, "index in range")
			n := &SliceV{ElemT: b.ElemT, Elems: make([]Value, len(b.Elems))}
			for i := range b.Elems {
				n.Elems[i] = mergeValues(mkEq(idx, mkInt(int64(i))), v, b.Elems[i])
			}
			x.assignTo(e.X, n, st)
			return
		case *MapV:
			k := x.eval(e.Index, st)
			ks, ok := k.(*StrV)
			if !ok {
				unsup("map key type")
			}
			lit, isLit := ks.isLit()
			if !isLit {
				unsup("map store with symbolic key")
			}
			n := &MapV{ValT: b.ValT, Keys: append([]string(nil), b.Keys...), Vals: append([]Value(nil), b.Vals...)}
			found := false
			for i, kk := range n.Keys {
				if kk == lit {
					n.Vals[i] = x.freeze(v, st)
					found = true
				}
			}
			if !found {
				n.Keys = append(n.Keys, lit)
				n.Vals = append(n.Vals, x.freeze(v, st))
			}
			x.assignTo(e.X, n, st)
			return
		}
		unsup("index assignment on %T", base)
	}
	unsup("assignment target %T", l)
}

// freeze turns heap references into value snapshots (objects are immutable after construction).
func (x *Exec) freeze(v Value, st *State) Value {
	switch r := v.(type) {
	case RefV:
		o := st.heap[r.ID]
		s := &StructV{T: r.T, Nil: tFalse, F: map[string]Value{}}
		for k, fv := range o {
			s.F[k] = x.freeze(fv, st)
		}
		return s
	case *TupleV:
		t := &TupleV{}
		for _, e := range r.Vs {
			t.Vs = append(t.Vs, x.freeze(e, st))
		}
		return t
	}
	return v
}

// ---------------------------------------------------------------- expressions

func (x *Exec) evalBool(e ast.Expr, st *State) *Term {
	v := x.eval(e, st)
	b, ok := v.(BoolV)
	if !ok {
		unsup("expected bool, got %T at %s", v, x.pos(e))
	}
	return b.T
}

func (x *Exec) evalInt(e ast.Expr, st *State) *Term {
	v := x.eval(e, st)
	b, ok := v.(IntV)
	if !ok {
		unsup("expected int, got %T at %s", v, x.pos(e))
	}
	return b.T
}

func ratOfConst(c constant.Value, exact bool) *big.Rat {
	if !exact {
		f, _ := constant.Float64Val(c)
		r := new(big.Rat)
		r.SetFloat64(f)
		return r
	}
	c = constant.ToFloat(c)
	n := constant.Num(c)
	d := constant.Denom(c)
	ni, ok1 := constant.Val(n).(*big.Int)
	if !ok1 {
		i64, _ := constant.Int64Val(n)
		ni = big.NewInt(i64)
	}
	di, ok2 := constant.Val(d).(*big.Int)
	if !ok2 {
		i64, _ := constant.Int64Val(d)
		di = big.NewInt(i64)
	}
	return new(big.Rat).SetFrac(ni, di)
}

func (x *Exec) constValue(tv types.TypeAndValue) Value {
	c := tv.Value
	switch c.Kind() {
	case constant.Bool:
		return BoolV{mkBool(constant.BoolVal(c))}
	case constant.String:
		return litStr(constant.StringVal(c))
	case constant.Int:
		if b, ok := tv.Type.Underlying().(*types.Basic); ok && b.Info()&types.IsFloat != 0 {
			return FloatV{mkRat(ratOfConst(c, true))}
		}
		if v, ok := constant.Val(c).(*big.Int); ok {
			return IntV{mkBig(v)}
		}
		i, _ := constant.Int64Val(c)
		return IntV{mkInt(i)}
	case constant.Float:
		if b, ok := tv.Type.Underlying().(*types.Basic); ok && b.Info()&types.IsInteger != 0 {
			i, _ := constant.Int64Val(constant.ToInt(c))
			return IntV{mkInt(i)}
		}
		return FloatV{mkRat(ratOfConst(c, x.inSpec()))}
	}
	unsup("constant kind %v", c.Kind())
	return nil
}

func (x *Exec) eval(e ast.Expr, st *State) Value {
	if tv, ok := x.info().Types[e]; ok && tv.Value != nil {
		return x.constValue(tv)
	}
	switch e := e.(type) {
	case *ast.ParenExpr:
		return x.eval(e.X, st)
	case *ast.Ident:
		return x.evalIdent(e, st)
	case *ast.BasicLit:
		unsup("literal without constant value")
	case *ast.UnaryExpr:
		switch e.Op {
		case token.NOT:
			return BoolV{mkNot(x.evalBool(e.X, st))}
		case token.SUB:
			v := x.eval(e.X, st)
			switch n := v.(type) {
			case IntV:
				r := mkNeg(n.T)
				x.overflowCheck(r, x.info().TypeOf(e), st, e)
				return IntV{r}
			case FloatV:
				return FloatV{mkNeg(n.T)}
			}
		case token.ADD:
			return x.eval(e.X, st)
		case token.AND:
			if cl, ok := e.X.(*ast.CompositeLit); ok {
				return x.evalComposite(cl, st, true)
			}
		}
		unsup("unary %s at %s", e.Op, x.pos(e))
	case *ast.BinaryExpr:
		return x.evalBinary(e, st)
	case *ast.CallExpr:
		return x.evalCall(e, st)
	case *ast.SelectorExpr:
		return x.evalSelector(e, st)
	case *ast.IndexExpr:
		return x.evalIndex(e, st)
	case *ast.CompositeLit:
		return x.evalComposite(e, st, false)
	case *ast.TypeAssertExpr:
		v, _ := x.typeAssert(e, st, false)
		return v
	case *ast.SliceExpr:
		return x.evalSliceExpr(e, st)
	case *ast.StarExpr:
		return x.eval(e.X, st)
	}
	unsup("expression %T at %s", e, x.pos(e))
	return nil
}

func (x *Exec) evalIdent(e *ast.Ident, st *State) Value {
	obj := x.info().Uses[e]
	if obj == nil {
		obj = x.info().Defs[e]
	}
	switch o := obj.(type) {
	case *types.Nil:
		return NilV{}
	case *types.Var:
		if v, ok := st.vars[o]; ok {
			return v
		}
		if o.Pkg() != nil && o.Parent() == o.Pkg().Scope() {
			return x.pkgVar(o)
		}
		unsup("variable %s has no value at %s", e.Name, x.pos(e))
	case *types.Const:
		return x.constValue(types.TypeAndValue{Type: o.Type(), Value: o.Val()})
	}
	unsup("identifier %s (%T) at %s", e.Name, obj, x.pos(e))
	return nil
}

func (x *Exec) evalSelector(e *ast.SelectorExpr, st *State) Value {
	// package-qualified?
	if id, ok := e.X.(*ast.Ident); ok {
		if _, ok := x.info().Uses[id].(*types.PkgName); ok {
			switch o := x.info().Uses[e.Sel].(type) {
			case *types.Var:
				return x.pkgVar(o)
			case *types.Const:
				return x.constValue(types.TypeAndValue{Type: o.Type(), Value: o.Val()})
			}
			unsup("qualified identifier %s.%s", id.Name, e.Sel.Name)
		}
	}
	base := x.eval(e.X, st)
	return x.fieldOf(base, e.Sel.Name, st, e)
}

func (x *Exec) fieldOf(base Value, name string, st *State, at ast.Node) Value {
	switch b := base.(type) {
	case *StructV:
		x.oblige("nil", st, mkNot(b.Nil), at, "nil dereference reading ."+name)
		v, ok := b.F[name]
		if !ok {
			unsup("field %s not modelled on %s", name, b.T.Obj().Name())
		}
		return v
	case RefV:
		v, ok := st.heap[b.ID][name]
		if !ok {
			unsup("field %s of heap object not set", name)
		}
		return v
	case NilV:
		x.oblige("nil", st, tFalse, at, "nil dereference reading ."+name)
		st.assume(tFalse)
		return OpaqueV{Why: "nil deref"}
	case *ElemV:
		if name == "Value" {
			if b.Idx >= len(b.L.Elems) {
				x.oblige("nil", st, tFalse, at, "nil list element")
				st.assume(tFalse)
				return OpaqueV{Why: "nil deref"}
			}
			return b.L.Elems[b.Idx]
		}
	case OpaqueV:
		unsup("field %s of unmodelled value (%s)", name, b.Why)
	}
	unsup("selector .%s on %T at %s", name, base, x.pos(at))
	return nil
}

func (x *Exec) overflowCheck(r *Term, t types.Type, st *State, at ast.Node) {
	if x.inSpec() || r.isConst() {
		return
	}
	b, ok := t.Underlying().(*types.Basic)
	if !ok || b.Info()&types.IsInteger == 0 {
		return
	}
	lo, hi := intRange(b)
	x.oblige("overflow", st, mkAnd(mkLe(mkBig(lo), r), mkLe(r, mkBig(hi))), at, "no integer overflow")
}

func (x *Exec) evalBinary(e *ast.BinaryExpr, st *State) Value {
	switch e.Op {
	case token.LAND, token.LOR:
		a := x.evalBool(e.X, st)
		if e.Op == token.LAND && a.isFalse() {
			return BoolV{tFalse}
		}
		if e.Op == token.LOR && a.isTrue() {
			return BoolV{tTrue}
		}
		guard := a
		if e.Op == token.LOR {
			guard = mkNot(a)
		}
		n := len(st.pc)
		st.pc = append(st.pc, guard)
		saved := st.pc[:n:n]
		b := x.evalBool(e.Y, st)
		var added []*Term
		if len(st.pc) > n+1 {
			added = append(added, st.pc[n+1:]...)
		}
		st.pc = saved
		for _, t := range added {
			st.assume(mkImplies(guard, t))
		}
		if e.Op == token.LAND {
			return BoolV{mkAnd(a, b)}
		}
		return BoolV{mkOr(a, b)}
	}
	l := x.eval(e.X, st)
	r := x.eval(e.Y, st)
	t := x.info().TypeOf(e.X)
	return x.binop(e.Op, l, r, t, st, e)
}

func (x *Exec) binop(op token.Token, l, r Value, opndT types.Type, st *State, at ast.Node) Value {
	switch op {
	case token.EQL:
		return BoolV{x.valuesEqual(l, r, st)}
	case token.NEQ:
		return BoolV{mkNot(x.valuesEqual(l, r, st))}
	}
	switch a := l.(type) {
	case IntV:
		b, ok := r.(IntV)
		if !ok {
			if fb, ok := r.(FloatV); ok {
				return x.binop(op, FloatV{toReal(a.T)}, fb, types.Typ[types.Float64], st, at)
			}
			unsup("int op %T", r)
		}
		switch op {
		case token.ADD:
			t := mkAdd(a.T, b.T)
			x.overflowCheck(t, opndT, st, at)
			return IntV{t}
		case token.SUB:
			t := mkSub(a.T, b.T)
			x.overflowCheck(t, opndT, st, at)
			return IntV{t}
		case token.MUL:
			t := mkMul(a.T, b.T)
			x.overflowCheck(t, opndT, st, at)
			return IntV{t}
		case token.QUO:
			if !b.T.isConst() || isZero(b.T) {
				x.oblige("divzero", st, mkNot(mkEq(b.T, mkInt(0))), at, "divisor != 0")
			}
			return IntV{mkTDiv(a.T, b.T)}
		case token.REM:
			if !b.T.isConst() || isZero(b.T) {
				x.oblige("divzero", st, mkNot(mkEq(b.T, mkInt(0))), at, "divisor != 0")
			}
			return IntV{mkTMod(a.T, b.T)}
		case token.LSS:
			return BoolV{mkLt(a.T, b.T)}
		case token.LEQ:
			return BoolV{mkLe(a.T, b.T)}
		case token.GTR:
			return BoolV{mkGt(a.T, b.T)}
		case token.GEQ:
			return BoolV{mkGe(a.T, b.T)}
		}
	case FloatV:
		var bt *Term
		switch b := r.(type) {
		case FloatV:
			bt = b.T
		case IntV:
			bt = toReal(b.T)
		default:
			unsup("float op %T", r)
		}
		at2 := toReal(a.T)
		switch op {
		case token.ADD:
			return FloatV{x.fround(mkAdd(at2, bt), st, at)}
		case token.SUB:
			r := x.fround(mkSub(at2, bt), st, at)
			x.sterbenz(at2, bt, r, st)
			return FloatV{r}
		case token.MUL:
			return FloatV{x.fround(mkMul(at2, bt), st, at)}
		case token.QUO:
			return FloatV{x.fdiv(at2, bt, st, at)}
		case token.LSS:
			return BoolV{mkLt(at2, bt)}
		case token.LEQ:
			return BoolV{mkLe(at2, bt)}
		case token.GTR:
			return BoolV{mkGt(at2, bt)}
		case token.GEQ:
			return BoolV{mkGe(at2, bt)}
		}
	case *StrV:
		b, ok := r.(*StrV)
		if !ok {
			unsup("string op %T", r)
		}
		switch op {
		case token.ADD:
			return strConcat(a, b)
		case token.LSS, token.LEQ, token.GTR, token.GEQ:
			c := x.strCompare(a, b, st)
			z := mkInt(0)
			switch op {
			case token.LSS:
				return BoolV{mkLt(c, z)}
			case token.LEQ:
				return BoolV{mkLe(c, z)}
			case token.GTR:
				return BoolV{mkGt(c, z)}
			default:
				return BoolV{mkGe(c, z)}
			}
		}
	case BoolV:
	}
	unsup("binary %s on %T,%T at %s", op, l, r, x.pos(at))
	return nil
}

func (x *Exec) valuesEqual(l, r Value, st *State) *Term {
	switch a := l.(type) {
	case IntV:
		switch b := r.(type) {
		case IntV:
			return mkEq(a.T, b.T)
		case FloatV:
			return mkEq(toReal(a.T), b.T)
		}
	case FloatV:
		switch b := r.(type) {
		case IntV:
			return mkEq(a.T, toReal(b.T))
		case FloatV:
			return mkEq(a.T, b.T)
		}
	case BoolV:
		if b, ok := r.(BoolV); ok {
			return mkEq(a.T, b.T)
		}
	case *StrV:
		if b, ok := r.(*StrV); ok {
			return x.strEqual(a, b)
		}
	case NilV:
		switch b := r.(type) {
		case NilV:
			return tTrue
		case *StructV:
			return b.Nil
		case RefV:
			return tFalse
		case *ListV:
			return mkBool(b.Nil)
		case *ElemV:
			return mkBool(b.Idx >= len(b.L.Elems))
		case *SliceV:
			return tFalse
		case *MapV:
			return tFalse
		}
	case *StructV:
		switch b := r.(type) {
		case NilV:
			return a.Nil
		case *StructV:
			if x.inSpec() {
				// structural equality of immutable objects (spec only)
				return x.structEq(a, b, st)
			}
			if a == b {
				return tTrue
			}
			unsup("pointer comparison between objects")
		}
	case RefV:
		if _, ok := r.(NilV); ok {
			return tFalse
		}
	case *ListV:
		if _, ok := r.(NilV); ok {
			return mkBool(a.Nil)
		}
	case *ElemV:
		if _, ok := r.(NilV); ok {
			return mkBool(a.Idx >= len(a.L.Elems))
		}
	case *SliceV:
		if _, ok := r.(NilV); ok {
			return tFalse
		}
	case *MapV:
		if _, ok := r.(NilV); ok {
			return tFalse
		}
	}
	if a, ok := l.(OpaqueV); ok {
		if b, ok := r.(OpaqueV); ok && a.ID != 0 && b.ID != 0 && x.inSpec() {
			// two unknown values (spec only): the same value when they stem from the same call (A8), otherwise
			// nothing is known about their equality
			if a.ID == b.ID {
				return tTrue
			}
			lo, hi := a.ID, b.ID
			if lo > hi {
				lo, hi = hi, lo
			}
			return mkVar(fmt.Sprintf("opaque_eq_%d_%d", lo, hi), SBool)
		}
	}
	unsup("comparison of %T and %T", l, r)
	return nil
}

func (x *Exec) structEq(a, b *StructV, st *State) *Term {
	if a.T != b.T {
		return tFalse
	}
	c := mkEq(a.Nil, b.Nil)
	var fs []*Term
	for _, k := range sortedFieldNames(a.F) {
		va, vb := a.F[k], b.F[k]
		switch va.(type) {
		case IntV, BoolV, FloatV, *StrV:
			fs = append(fs, x.valuesEqual(va, vb, st))
		case *StructV:
			if sb, ok := vb.(*StructV); ok {
				fs = append(fs, x.structEq(va.(*StructV), sb, st))
			}
		}
	}
	return mkAnd(c, mkOr(a.Nil, mkAnd(fs...)))
}

func (x *Exec) evalIndex(e *ast.IndexExpr, st *State) Value {
	base := x.eval(e.X, st)
	switch b := base.(type) {
	case *SliceV:
		idx := x.evalInt(e.Index, st)
		n := int64(len(b.Elems))
		x.oblige("index", st, mkAnd(mkLe(mkInt(0), idx), mkLt(idx, b.length())), e, "index in range [0,"+fmt.Sprint(n)+")")
		return x.selectElem(b.Elems, idx, b.ElemT)
	case *MapV:
		v, _ := x.mapLookup(e, st)
		return v
	case NilV:
		if _, ok := x.info().TypeOf(e.X).Underlying().(*types.Map); ok {
			return x.zero(x.info().TypeOf(e))
		}
	}
	unsup("index on %T at %s", base, x.pos(e))
	return nil
}

func (x *Exec) selectElem(elems []Value, idx *Term, et types.Type) Value {
	if idx.isConst() {
		i := idx.Int.Int64()
		if i >= 0 && i < int64(len(elems)) {
			return elems[i]
		}
		if len(elems) > 0 {
			return elems[0] // unreachable when the index obligation holds
		}
		return x.zero(et)
	}
	if len(elems) == 0 {
		return x.zero(et)
	}
	// strings: build finite-choice string
	if _, ok := elems[0].(*StrV); ok {
		var alts []StrAlt
		allLit := true
		for i, el := range elems {
			s, ok := el.(*StrV).isLit()
			if !ok {
				allLit = false
				break
			}
			c := mkEq(idx, mkInt(int64(i)))
			if c.isFalse() {
				continue
			}
			alts = append(alts, StrAlt{c, s})
		}
		if allLit {
			return normalizeAlts(alts)
		}
	}
	r := elems[len(elems)-1]
	for i := len(elems) - 2; i >= 0; i-- {
		r = mergeValues(mkEq(idx, mkInt(int64(i))), elems[i], r)
	}
	return r
}

func normalizeAlts(alts []StrAlt) *StrV {
	idx := map[string]int{}
	var out []StrAlt
	for _, a := range alts {
		if a.Cond.isFalse() {
			continue
		}
		if i, ok := idx[a.S]; ok {
			out[i].Cond = mkOr(out[i].Cond, a.Cond)
			continue
		}
		idx[a.S] = len(out)
		out = append(out, a)
	}
	return &StrV{Alts: out}
}

func (x *Exec) mapLookup(e *ast.IndexExpr, st *State) (Value, *Term) {
	base := x.eval(e.X, st)
	mt, _ := x.info().TypeOf(e.X).Underlying().(*types.Map)
	var zero Value
	if mt != nil {
		zero = x.zero(mt.Elem())
	}
	m, ok := base.(*MapV)
	if !ok {
		if _, isNil := base.(NilV); isNil {
			return zero, tFalse
		}
		unsup("map lookup on %T", base)
	}
	k := x.eval(e.Index, st)
	ks, ok := k.(*StrV)
	if !ok {
		unsup("map key of type %T", k)
	}
	if ks.Opaque {
		unsup("map lookup with unmodelled string key (%s)", ks.Tag)
	}
	if ks.Cases != nil {
		res := zero
		present := tFalse
		for _, cs := range ks.Cases {
			for j := len(m.Keys) - 1; j >= 0; j-- {
				if c, ok := matchPattern(m.Keys[j], cs.Parts); ok && !c.isFalse() {
					g := mkAnd(cs.Cond, c)
					res = mergeValues(g, m.Vals[j], res)
					present = mkOr(present, g)
				}
			}
		}
		return res, present
	}
	if ks.Fmt != nil {
		// formatted key (e.g. Sprintf("%d-%d", m, d)): every literal key of the constant map is matched against the pattern
		res := zero
		present := tFalse
		for j := len(m.Keys) - 1; j >= 0; j-- {
			if c, ok := matchPattern(m.Keys[j], ks.Fmt); ok && !c.isFalse() {
				res = mergeValues(c, m.Vals[j], res)
				present = mkOr(present, c)
			}
		}
		return res, present
	}
	pos := map[string]int{}
	for i, kk := range m.Keys {
		pos[kk] = i
	}
	res := zero
	present := tFalse
	for i := len(ks.Alts) - 1; i >= 0; i-- {
		a := ks.Alts[i]
		if j, ok := pos[a.S]; ok {
			res = mergeValues(a.Cond, m.Vals[j], res)
			present = mkOr(present, a.Cond)
		}
	}
	return res, present
}

func (x *Exec) typeAssert(e *ast.TypeAssertExpr, st *State, commaOk bool) (Value, *Term) {
	v := x.eval(e.X, st)
	want := x.info().TypeOf(e.Type)
	bx, ok := v.(*BoxV)
	if !ok {
		unsup("type assertion on unboxed %T at %s", v, x.pos(e))
	}
	same := types.Identical(bx.T, want)
	if !commaOk {
		x.oblige("typeassert", st, mkBool(same), e, fmt.Sprintf("dynamic type %s is %s", bx.T, want))
		if !same {
			st.assume(tFalse)
			return OpaqueV{T: want, Why: "failed type assertion"}, tFalse
		}
		return bx.V, tTrue
	}
	if !same {
		return x.zero(want), tFalse
	}
	return bx.V, tTrue
}

// BoxV: a value stored in an interface, with its dynamic type.
type BoxV struct {
	V Value
	T types.Type
}

func (x *Exec) evalSliceExpr(e *ast.SliceExpr, st *State) Value {
	base := x.eval(e.X, st)
	switch b := base.(type) {
	case *SliceV:
		lo, hi := 0, len(b.Elems)
		if e.Low != nil {
			t := x.evalInt(e.Low, st)
			if !t.isConst() {
				unsup("symbolic slice bound")
			}
			lo = int(t.Int.Int64())
		}
		if e.High != nil {
			t := x.evalInt(e.High, st)
			if !t.isConst() {
				unsup("symbolic slice bound")
			}
			hi = int(t.Int.Int64())
		}
		if lo < 0 || hi > len(b.Elems) || lo > hi {
			x.oblige("index", st, tFalse, e, "slice bounds in range")
			st.assume(tFalse)
			return &SliceV{ElemT: b.ElemT}
		}
		return &SliceV{ElemT: b.ElemT, Elems: b.Elems[lo:hi]}
	case *StrV:
		return x.strSlice(b, e, st)
	}
	unsup("slice expression on %T at %s", base, x.pos(e))
	return nil
}

func (x *Exec) evalComposite(e *ast.CompositeLit, st *State, addr bool) Value {
	t := x.info().TypeOf(e)
	switch u := t.Underlying().(type) {
	case *types.Slice, *types.Array:
		var et types.Type
		if s, ok := u.(*types.Slice); ok {
			et = s.Elem()
		} else {
			et = u.(*types.Array).Elem()
		}
		sv := &SliceV{ElemT: et}
		for _, el := range e.Elts {
			if _, ok := el.(*ast.KeyValueExpr); ok {
				unsup("keyed array literal")
			}
			sv.Elems = append(sv.Elems, x.evalElt(el, et, st))
		}
		if a, ok := u.(*types.Array); ok {
			for int64(len(sv.Elems)) < a.Len() {
				sv.Elems = append(sv.Elems, x.zero(et))
			}
		}
		return sv
	case *types.Map:
		mv := &MapV{ValT: u.Elem()}
		for _, el := range e.Elts {
			kv := el.(*ast.KeyValueExpr)
			k := x.eval(kv.Key, st)
			ks, ok := k.(*StrV)
			if !ok {
				unsup("map literal with non-string key")
			}
			lit, ok := ks.isLit()
			if !ok {
				unsup("map literal with non-literal key")
			}
			mv.Keys = append(mv.Keys, lit)
			mv.Vals = append(mv.Vals, x.evalElt(kv.Value, u.Elem(), st))
		}
		return mv
	case *types.Struct:
		n, ok := t.(*types.Named)
		if !ok {
			unsup("anonymous struct literal")
		}
		sv := &StructV{T: n, Nil: tFalse, F: map[string]Value{}}
		for i := 0; i < u.NumFields(); i++ {
			sv.F[u.Field(i).Name()] = x.zero(u.Field(i).Type())
		}
		for i, el := range e.Elts {
			if kv, ok := el.(*ast.KeyValueExpr); ok {
				sv.F[kv.Key.(*ast.Ident).Name] = x.eval(kv.Value, st)
			} else {
				sv.F[u.Field(i).Name()] = x.eval(el, st)
			}
		}
		return sv
	}
	unsup("composite literal of type %s", t)
	return nil
}

func (x *Exec) evalElt(el ast.Expr, et types.Type, st *State) Value {
	if cl, ok := el.(*ast.CompositeLit); ok && cl.Type == nil {
		// elided type
		return x.evalCompositeAs(cl, et, st)
	}
	return x.eval(el, st)
}

func (x *Exec) evalCompositeAs(e *ast.CompositeLit, t types.Type, st *State) Value {
	switch u := t.Underlying().(type) {
	case *types.Slice:
		sv := &SliceV{ElemT: u.Elem()}
		for _, el := range e.Elts {
			sv.Elems = append(sv.Elems, x.evalElt(el, u.Elem(), st))
		}
		return sv
	}
	return x.evalComposite(e, st, false)
}

// package-level variables: constant tables only
var pkgVarCache = map[*types.Var]Value{}

func (x *Exec) pkgVar(o *types.Var) Value {
	if v, ok := pkgVarCache[o]; ok {
		return v
	}
	pk := x.w.Pkgs[o.Pkg().Path()]
	if pk == nil {
		unsup("package variable %s.%s is outside the module", o.Pkg().Name(), o.Name())
	}
	if x.w.isMutableGlobal(o) {
		unsup("read of mutable package variable %s.%s", o.Pkg().Name(), o.Name())
	}
	// find initializer
	for _, f := range pk.Files {
		for _, d := range f.Decls {
			gd, ok := d.(*ast.GenDecl)
			if !ok || gd.Tok != token.VAR {
				continue
			}
			for _, sp := range gd.Specs {
				vs := sp.(*ast.ValueSpec)
				for i, n := range vs.Names {
					if pk.Info.Defs[n] == o {
						if i >= len(vs.Values) {
							v := x.zero(o.Type())
							pkgVarCache[o] = v
							return v
						}
						// evaluate in the home package, empty state
						fr := &frame{pkg: pk}
						x.frames = append(x.frames, fr)
						x.specMode++
						v := x.eval(vs.Values[i], newState())
						x.specMode--
						x.frames = x.frames[:len(x.frames)-1]
						pkgVarCache[o] = v
						return v
					}
				}
			}
		}
	}
	unsup("no initializer for %s", o.Name())
	return nil
}

// definingEnsures: value E of the first clause `ensures result == E` of a contract (nil if there is none).
func (x *Exec) definingEnsures(pk *Pkg, d *Decl, cargs []Value, st *State) (v Value) {
	return x.definingEnsuresField(pk, d, cargs, st, "")
}

// definingEnsuresField: the same for `ensures result.field == E` (field == "" means the result itself).
func (x *Exec) definingEnsuresField(pk *Pkg, d *Decl, cargs []Value, st *State, field string) (v Value) {
	defer func() {
		if r := recover(); r != nil {
			if _, ok := r.(unsupported); ok {
				v = nil
				return
			}
			panic(r)
		}
	}()
	for _, c := range d.Clauses {
		if c.Kind != "ensures" || c.FnName == "" {
			continue
		}
		fd := pk.Funcs[c.FnName]
		if fd == nil || len(fd.Body.List) != 1 {
			continue
		}
		ret, ok := fd.Body.List[0].(*ast.ReturnStmt)
		if !ok || len(ret.Results) != 1 {
			continue
		}
		be, ok := ret.Results[0].(*ast.BinaryExpr)
		if !ok || be.Op != token.EQL {
			continue
		}
		if field == "" {
			id, ok := be.X.(*ast.Ident)
			if !ok || id.Name != "result" {
				continue
			}
		} else {
			se, ok := be.X.(*ast.SelectorExpr)
			if !ok || se.Sel.Name != field {
				continue
			}
			id, ok := se.X.(*ast.Ident)
			if !ok || id.Name != "result" {
				continue
			}
		}
		// evaluate the right-hand side with the clause function's parameters bound (result is not mentioned in it)
		fr := &frame{fn: fd, pkg: pk}
		x.frames = append(x.frames, fr)
		x.specMode++
		func() {
			defer func() { x.frames = x.frames[:len(x.frames)-1]; x.specMode-- }()
			i := 0
			for _, f := range fd.Type.Params.List {
				for _, n := range f.Names {
					if i < len(cargs) {
						if obj, ok := pk.Info.Defs[n].(*types.Var); ok {
							st.vars[obj] = cargs[i]
						}
					}
					i++
				}
			}
			v = x.eval(be.Y, st)
		}()
		return v
	}
	return nil
}
