package main

import (
	"go/token"
	"go/types"
)

type State struct {
	pc   []*Term
	vars map[*types.Var]Value
	heap map[int]map[string]Value
	// memo: results of contract calls made on this path, by callee and argument identity (functions under contract are
	// deterministic in their arguments - assumption A8 - so a repeated call denotes the same value)
	memo map[string]Value
}

func newState() *State {
	return &State{vars: map[*types.Var]Value{}, heap: map[int]map[string]Value{}}
}

func (s *State) clone() *State {
	n := &State{pc: append([]*Term(nil), s.pc...), vars: make(map[*types.Var]Value, len(s.vars)), heap: make(map[int]map[string]Value, len(s.heap))}
	for k, v := range s.vars {
		n.vars[k] = v
	}
	for k, v := range s.heap {
		n.heap[k] = v // copy-on-write at field update
	}
	if len(s.memo) > 0 {
		n.memo = make(map[string]Value, len(s.memo))
		for k, v := range s.memo {
			n.memo[k] = v
		}
	}
	return n
}

func (s *State) assume(t *Term) {
	if t.isTrue() {
		return
	}
	if t.Op == "and" {
		for _, a := range t.Args {
			s.assume(a)
		}
		return
	}
	for _, p := range s.pc {
		if p == t {
			return
		}
	}
	s.pc = append(s.pc, t)
}

func (s *State) dead() bool {
	for _, p := range s.pc {
		if p.isFalse() {
			return true
		}
	}
	return false
}

func (s *State) setField(id int, f string, v Value) {
	o := s.heap[id]
	n := make(map[string]Value, len(o)+1)
	for k, x := range o {
		n[k] = x
	}
	n[f] = v
	s.heap[id] = n
}

// mergeStates joins two states that share a common pc prefix.
func mergeStates(a, b *State) *State {
	if a == nil || a.dead() {
		if b != nil && b.dead() {
			return nil
		}
		return b
	}
	if b == nil || b.dead() {
		return a
	}
	n := 0
	for n < len(a.pc) && n < len(b.pc) && a.pc[n] == b.pc[n] {
		n++
	}
	ra := mkAnd(a.pc[n:]...)
	rb := mkAnd(b.pc[n:]...)
	r := &State{pc: append([]*Term(nil), a.pc[:n]...), vars: map[*types.Var]Value{}, heap: map[int]map[string]Value{}}
	if d := mkOr(ra, rb); !d.isTrue() {
		r.pc = append(r.pc, d)
	}
	// distinguishing condition: a's remainder (the remainders are mutually exclusive by construction of branches)
	c := ra
	for k, va := range a.vars {
		if vb, ok := b.vars[k]; ok {
			if sameValue(va, vb) {
				r.vars[k] = va
			} else {
				// different heap objects on the two paths are merged as values
				if ra, ok := va.(RefV); ok {
					if rb, ok2 := vb.(RefV); !ok2 || ra.ID != rb.ID {
						va = freezeFrom(a, ra)
					}
				}
				if rb, ok := vb.(RefV); ok {
					if ra, ok2 := va.(RefV); !ok2 || ra.ID != rb.ID {
						vb = freezeFrom(b, rb)
					}
				}
				if mv, ok := tryMerge(c, va, vb); ok {
					r.vars[k] = mv
				}
			}
			// an unmergeable variable is dropped: reading it later is reported as unsupported, never guessed
		}
	}
	for id, oa := range a.heap {
		ob, ok := b.heap[id]
		if !ok {
			r.heap[id] = oa
			continue
		}
		m := map[string]Value{}
		for f, va := range oa {
			if vb, ok := ob[f]; ok {
				if sameValue(va, vb) {
					m[f] = va
				} else {
					m[f] = mergeValues(c, va, vb)
				}
			}
		}
		r.heap[id] = m
	}
	for id, ob := range b.heap {
		if _, ok := a.heap[id]; !ok {
			r.heap[id] = ob
		}
	}
	// memoised call results survive a merge only when made before the fork (same value on both sides)
	for k, va := range a.memo {
		if vb, ok := b.memo[k]; ok && sameValue(va, vb) {
			if r.memo == nil {
				r.memo = map[string]Value{}
			}
			r.memo[k] = va
		}
	}
	return r
}

func sameValue(a, b Value) bool {
	switch x := a.(type) {
	case IntV:
		y, ok := b.(IntV)
		return ok && x.T == y.T
	case BoolV:
		y, ok := b.(BoolV)
		return ok && x.T == y.T
	case FloatV:
		y, ok := b.(FloatV)
		return ok && x.T == y.T
	case *StrV:
		y, ok := b.(*StrV)
		return ok && x == y
	case *StructV:
		y, ok := b.(*StructV)
		return ok && x == y
	case RefV:
		y, ok := b.(RefV)
		return ok && x.ID == y.ID
	case *SliceV:
		y, ok := b.(*SliceV)
		return ok && x == y
	case *ListV:
		y, ok := b.(*ListV)
		return ok && x == y
	case *MapV:
		y, ok := b.(*MapV)
		return ok && x == y
	case *ElemV:
		y, ok := b.(*ElemV)
		return ok && x.L == y.L && x.Idx == y.Idx
	case NilV:
		_, ok := b.(NilV)
		return ok
	case nil:
		return b == nil
	}
	return false
}

// Obligation: hyps |- goal
type Obligation struct {
	Name   string
	Kind   string
	Fn     string // function under contract (pkg.Recv.Name)
	Tags   []string
	Hyps   []*Term
	Goal   *Term
	Pos    token.Position
	Clause string // contract text, when the obligation stems from a clause
	Inputs []InputVar
	Batch  []*Obligation // for batched obligations: the members
	Split  *SplitSpec
	Splits []*SplitSpec
	Reveal map[string]bool
	// results
	Status  string // discharged, failed(sat), unknown, error
	Solver  string
	Seconds float64
	Model   map[string]string
	Output  string
	Sub     int // number of sub-obligations after splitting
}

type InputVar struct {
	Path string // e.g. solar.year
	T    *Term
}

type SplitSpec struct {
	Term   *Term
	Lo, Hi int64
	Text   string
}

func tryMerge(c *Term, a, b Value) (v Value, ok bool) {
	defer func() {
		if r := recover(); r != nil {
			if _, isU := r.(unsupported); isU {
				v, ok = nil, false
				return
			}
			panic(r)
		}
	}()
	return mergeValues(c, a, b), true
}

func freezeFrom(st *State, r RefV) Value {
	o := st.heap[r.ID]
	s := &StructV{T: r.T, Nil: tFalse, F: map[string]Value{}}
	for k, fv := range o {
		if rr, ok := fv.(RefV); ok {
			s.F[k] = freezeFrom(st, rr)
		} else {
			s.F[k] = fv
		}
	}
	return s
}
