package main

// Terms: hash-consed SMT terms over Int / Bool / Real with constant folding.

import (
	"fmt"
	"math/big"
	"sort"
	"strings"
)

type Sort int

const (
	SInt Sort = iota
	SBool
	SReal
)

func (s Sort) String() string {
	switch s {
	case SInt:
		return "Int"
	case SBool:
		return "Bool"
	}
	return "Real"
}

type Term struct {
	Op   string // const var app + - * neg tdiv tmod div mod ite and or not => = < <= to_real to_int rdiv is_int abs
	Sort Sort
	Args []*Term
	Int  *big.Int // Op=="const", Sort==SInt
	Rat  *big.Rat // Op=="const", Sort==SReal
	B    bool     // Op=="const", Sort==SBool
	Name string   // var / app
	id   int
}

var termTable = map[string]*Term{}
var termCount = 0

func intern(t *Term) *Term {
	var sb strings.Builder
	sb.WriteString(t.Op)
	sb.WriteByte('|')
	sb.WriteString(t.Sort.String())
	sb.WriteByte('|')
	sb.WriteString(t.Name)
	if t.Op == "const" {
		switch t.Sort {
		case SInt:
			sb.WriteString(t.Int.String())
		case SReal:
			sb.WriteString(t.Rat.String())
		default:
			if t.B {
				sb.WriteString("T")
			} else {
				sb.WriteString("F")
			}
		}
	}
	for _, a := range t.Args {
		fmt.Fprintf(&sb, ",%d", a.id)
	}
	k := sb.String()
	if o, ok := termTable[k]; ok {
		return o
	}
	termCount++
	t.id = termCount
	termTable[k] = t
	return t
}

var (
	tTrue  = intern(&Term{Op: "const", Sort: SBool, B: true})
	tFalse = intern(&Term{Op: "const", Sort: SBool, B: false})
)

func mkInt(n int64) *Term { return mkBig(big.NewInt(n)) }
func mkBig(n *big.Int) *Term {
	return intern(&Term{Op: "const", Sort: SInt, Int: new(big.Int).Set(n)})
}
func mkRat(r *big.Rat) *Term {
	return intern(&Term{Op: "const", Sort: SReal, Rat: new(big.Rat).Set(r)})
}
func mkBool(b bool) *Term {
	if b {
		return tTrue
	}
	return tFalse
}
func mkVar(name string, s Sort) *Term { return intern(&Term{Op: "var", Sort: s, Name: name}) }

var freshCounter = map[string]int{}

func freshVar(prefix string, s Sort) *Term {
	prefix = sanitize(prefix)
	freshCounter[prefix]++
	return mkVar(fmt.Sprintf("%s!%d", prefix, freshCounter[prefix]), s)
}

func sanitize(s string) string {
	var sb strings.Builder
	for _, r := range s {
		if (r >= 'a' && r <= 'z') || (r >= 'A' && r <= 'Z') || (r >= '0' && r <= '9') || r == '_' || r == '.' || r == '!' {
			sb.WriteRune(r)
		} else {
			fmt.Fprintf(&sb, "_u%x", r)
		}
	}
	return sb.String()
}

func (t *Term) isConst() bool { return t.Op == "const" }
func (t *Term) isTrue() bool  { return t == tTrue }
func (t *Term) isFalse() bool { return t == tFalse }

func mkApp(name string, s Sort, args ...*Term) *Term {
	return intern(&Term{Op: "app", Sort: s, Name: name, Args: args})
}

func mkNot(a *Term) *Term {
	if a.isConst() {
		return mkBool(!a.B)
	}
	if a.Op == "not" {
		return a.Args[0]
	}
	return intern(&Term{Op: "not", Sort: SBool, Args: []*Term{a}})
}

func mkAnd(as ...*Term) *Term {
	var out []*Term
	seen := map[int]bool{}
	for _, a := range as {
		if a.isFalse() {
			return tFalse
		}
		if a.isTrue() {
			continue
		}
		if a.Op == "and" {
			for _, b := range a.Args {
				if !seen[b.id] {
					seen[b.id] = true
					out = append(out, b)
				}
			}
			continue
		}
		if !seen[a.id] {
			seen[a.id] = true
			out = append(out, a)
		}
	}
	for _, a := range out {
		if a.Op == "not" && seen[a.Args[0].id] {
			return tFalse
		}
	}
	if len(out) == 0 {
		return tTrue
	}
	if len(out) == 1 {
		return out[0]
	}
	return intern(&Term{Op: "and", Sort: SBool, Args: out})
}

func mkOr(as ...*Term) *Term {
	var out []*Term
	seen := map[int]bool{}
	for _, a := range as {
		if a.isTrue() {
			return tTrue
		}
		if a.isFalse() {
			continue
		}
		if a.Op == "or" {
			for _, b := range a.Args {
				if !seen[b.id] {
					seen[b.id] = true
					out = append(out, b)
				}
			}
			continue
		}
		if !seen[a.id] {
			seen[a.id] = true
			out = append(out, a)
		}
	}
	for _, a := range out {
		if a.Op == "not" && seen[a.Args[0].id] {
			return tTrue
		}
	}
	if len(out) == 0 {
		return tFalse
	}
	if len(out) == 1 {
		return out[0]
	}
	return intern(&Term{Op: "or", Sort: SBool, Args: out})
}

func mkImplies(a, b *Term) *Term {
	if a.isTrue() {
		return b
	}
	if a.isFalse() || b.isTrue() {
		return tTrue
	}
	if b.isFalse() {
		return mkNot(a)
	}
	return intern(&Term{Op: "=>", Sort: SBool, Args: []*Term{a, b}})
}

func mkIte(c, a, b *Term) *Term {
	if c.isTrue() {
		return a
	}
	if c.isFalse() {
		return b
	}
	if a == b {
		return a
	}
	if a.Sort != b.Sort {
		panic(fmt.Sprintf("ite sort mismatch %v %v", a.Sort, b.Sort))
	}
	if a.Sort == SBool {
		if a.isTrue() && b.isFalse() {
			return c
		}
		if a.isFalse() && b.isTrue() {
			return mkNot(c)
		}
		if a.isTrue() {
			return mkOr(c, b)
		}
		if a.isFalse() {
			return mkAnd(mkNot(c), b)
		}
		if b.isTrue() {
			return mkOr(mkNot(c), a)
		}
		if b.isFalse() {
			return mkAnd(c, a)
		}
	}
	// ite(c, x, ite(c, y, z)) -> ite(c, x, z)
	if b.Op == "ite" && b.Args[0] == c {
		return mkIte(c, a, b.Args[2])
	}
	if a.Op == "ite" && a.Args[0] == c {
		return mkIte(c, a.Args[1], b)
	}
	return intern(&Term{Op: "ite", Sort: a.Sort, Args: []*Term{c, a, b}})
}

func toReal(a *Term) *Term {
	if a.Sort == SReal {
		return a
	}
	if a.isConst() {
		return mkRat(new(big.Rat).SetInt(a.Int))
	}
	return intern(&Term{Op: "to_real", Sort: SReal, Args: []*Term{a}})
}

func unify(a, b *Term) (*Term, *Term) {
	if a.Sort == b.Sort {
		return a, b
	}
	if a.Sort == SBool || b.Sort == SBool {
		panic("sort mismatch bool vs numeric")
	}
	return toReal(a), toReal(b)
}

func mkEq(a, b *Term) *Term {
	a, b = unify(a, b)
	if a == b {
		return tTrue
	}
	if a.isConst() && b.isConst() {
		switch a.Sort {
		case SInt:
			return mkBool(a.Int.Cmp(b.Int) == 0)
		case SReal:
			return mkBool(a.Rat.Cmp(b.Rat) == 0)
		default:
			return mkBool(a.B == b.B)
		}
	}
	if a.Sort == SBool {
		if a.isTrue() {
			return b
		}
		if b.isTrue() {
			return a
		}
		if a.isFalse() {
			return mkNot(b)
		}
		if b.isFalse() {
			return mkNot(a)
		}
	}
	// push equality with a constant through ite over constants (finite-choice selectors)
	if b.isConst() && a.Op == "ite" && iteLeavesConst(a, 64) {
		return mkIte(a.Args[0], mkEq(a.Args[1], b), mkEq(a.Args[2], b))
	}
	if a.isConst() && b.Op == "ite" && iteLeavesConst(b, 64) {
		return mkIte(b.Args[0], mkEq(a, b.Args[1]), mkEq(a, b.Args[2]))
	}
	if a.id > b.id {
		a, b = b, a
	}
	return intern(&Term{Op: "=", Sort: SBool, Args: []*Term{a, b}})
}

func iteLeavesConst(t *Term, budget int) bool {
	n := 0
	var rec func(t *Term) bool
	rec = func(t *Term) bool {
		n++
		if n > budget {
			return false
		}
		if t.isConst() {
			return true
		}
		if t.Op == "ite" {
			return rec(t.Args[1]) && rec(t.Args[2])
		}
		return false
	}
	return rec(t)
}

func cmpConst(a, b *Term) int {
	if a.Sort == SInt {
		return a.Int.Cmp(b.Int)
	}
	return a.Rat.Cmp(b.Rat)
}

func mkLt(a, b *Term) *Term {
	a, b = unify(a, b)
	if a == b {
		return tFalse
	}
	if a.isConst() && b.isConst() {
		return mkBool(cmpConst(a, b) < 0)
	}
	if b.isConst() && a.Op == "ite" && iteLeavesConst(a, 64) {
		return mkIte(a.Args[0], mkLt(a.Args[1], b), mkLt(a.Args[2], b))
	}
	if a.isConst() && b.Op == "ite" && iteLeavesConst(b, 64) {
		return mkIte(b.Args[0], mkLt(a, b.Args[1]), mkLt(a, b.Args[2]))
	}
	return intern(&Term{Op: "<", Sort: SBool, Args: []*Term{a, b}})
}

func mkLe(a, b *Term) *Term {
	a, b = unify(a, b)
	if a == b {
		return tTrue
	}
	if a.isConst() && b.isConst() {
		return mkBool(cmpConst(a, b) <= 0)
	}
	if b.isConst() && a.Op == "ite" && iteLeavesConst(a, 64) {
		return mkIte(a.Args[0], mkLe(a.Args[1], b), mkLe(a.Args[2], b))
	}
	if a.isConst() && b.Op == "ite" && iteLeavesConst(b, 64) {
		return mkIte(b.Args[0], mkLe(a, b.Args[1]), mkLe(a, b.Args[2]))
	}
	return intern(&Term{Op: "<=", Sort: SBool, Args: []*Term{a, b}})
}
func mkGt(a, b *Term) *Term { return mkLt(b, a) }
func mkGe(a, b *Term) *Term { return mkLe(b, a) }

func mkAdd(a, b *Term) *Term {
	a, b = unify(a, b)
	if a.isConst() && b.isConst() {
		if a.Sort == SInt {
			return mkBig(new(big.Int).Add(a.Int, b.Int))
		}
		return mkRat(new(big.Rat).Add(a.Rat, b.Rat))
	}
	if isZero(a) {
		return b
	}
	if isZero(b) {
		return a
	}
	// (x + c1) + c2 -> x + (c1+c2)
	if b.isConst() && a.Op == "+" && a.Args[1].isConst() {
		return mkAdd(a.Args[0], mkAdd(a.Args[1], b))
	}
	if a.isConst() {
		a, b = b, a
	}
	if b.isConst() && b.Sort == SInt && a.Op == "ite" && iteLeavesConst(a, 64) {
		return mkIte(a.Args[0], mkAdd(a.Args[1], b), mkAdd(a.Args[2], b))
	}
	return intern(&Term{Op: "+", Sort: a.Sort, Args: []*Term{a, b}})
}

func isZero(a *Term) bool {
	if !a.isConst() {
		return false
	}
	if a.Sort == SInt {
		return a.Int.Sign() == 0
	}
	return a.Sort == SReal && a.Rat.Sign() == 0
}
func isOne(a *Term) bool {
	if !a.isConst() {
		return false
	}
	if a.Sort == SInt {
		return a.Int.Cmp(big.NewInt(1)) == 0
	}
	return a.Sort == SReal && a.Rat.Cmp(big.NewRat(1, 1)) == 0
}

func mkNeg(a *Term) *Term {
	if a.isConst() {
		if a.Sort == SInt {
			return mkBig(new(big.Int).Neg(a.Int))
		}
		return mkRat(new(big.Rat).Neg(a.Rat))
	}
	if a.Op == "neg" {
		return a.Args[0]
	}
	return intern(&Term{Op: "neg", Sort: a.Sort, Args: []*Term{a}})
}

func mkSub(a, b *Term) *Term {
	a, b = unify(a, b)
	if b.isConst() {
		return mkAdd(a, mkNeg(b))
	}
	if a == b {
		if a.Sort == SInt {
			return mkInt(0)
		}
		return mkRat(new(big.Rat))
	}
	return intern(&Term{Op: "-", Sort: a.Sort, Args: []*Term{a, b}})
}

func mkMul(a, b *Term) *Term {
	a, b = unify(a, b)
	if a.isConst() && b.isConst() {
		if a.Sort == SInt {
			return mkBig(new(big.Int).Mul(a.Int, b.Int))
		}
		return mkRat(new(big.Rat).Mul(a.Rat, b.Rat))
	}
	if isZero(a) {
		return a
	}
	if isZero(b) {
		return b
	}
	if isOne(a) {
		return b
	}
	if isOne(b) {
		return a
	}
	if b.isConst() {
		a, b = b, a
	}
	if a.isConst() && a.Sort == SInt && b.Op == "ite" && iteLeavesConst(b, 64) {
		return mkIte(b.Args[0], mkMul(a, b.Args[1]), mkMul(a, b.Args[2]))
	}
	return intern(&Term{Op: "*", Sort: a.Sort, Args: []*Term{a, b}})
}

// Go's truncating integer division / remainder.
func mkTDiv(a, b *Term) *Term {
	if a.isConst() && b.isConst() && b.Int.Sign() != 0 {
		return mkBig(new(big.Int).Quo(a.Int, b.Int))
	}
	if isOne(b) {
		return a
	}
	if b.isConst() && a.Op == "ite" && iteLeavesConst(a, 64) {
		return mkIte(a.Args[0], mkTDiv(a.Args[1], b), mkTDiv(a.Args[2], b))
	}
	return intern(&Term{Op: "tdiv", Sort: SInt, Args: []*Term{a, b}})
}
func mkTMod(a, b *Term) *Term {
	if a.isConst() && b.isConst() && b.Int.Sign() != 0 {
		return mkBig(new(big.Int).Rem(a.Int, b.Int))
	}
	if b.isConst() && a.Op == "ite" && iteLeavesConst(a, 64) {
		return mkIte(a.Args[0], mkTMod(a.Args[1], b), mkTMod(a.Args[2], b))
	}
	return intern(&Term{Op: "tmod", Sort: SInt, Args: []*Term{a, b}})
}

// Floor division / modulus (SMT-LIB div, mod for positive divisors).
func mkFDiv(a, b *Term) *Term {
	if a.isConst() && b.isConst() && b.Int.Sign() > 0 {
		q := new(big.Int)
		m := new(big.Int)
		q.DivMod(a.Int, b.Int, m)
		return mkBig(q)
	}
	return intern(&Term{Op: "div", Sort: SInt, Args: []*Term{a, b}})
}
func mkFMod(a, b *Term) *Term {
	if a.isConst() && b.isConst() && b.Int.Sign() > 0 {
		q := new(big.Int)
		m := new(big.Int)
		q.DivMod(a.Int, b.Int, m)
		return mkBig(m)
	}
	return intern(&Term{Op: "mod", Sort: SInt, Args: []*Term{a, b}})
}

func mkRDiv(a, b *Term) *Term {
	a = toReal(a)
	b = toReal(b)
	if a.isConst() && b.isConst() && b.Rat.Sign() != 0 {
		return mkRat(new(big.Rat).Quo(a.Rat, b.Rat))
	}
	return intern(&Term{Op: "rdiv", Sort: SReal, Args: []*Term{a, b}})
}

// floor of a real
func mkFloor(a *Term) *Term {
	if a.Sort == SInt {
		return a
	}
	if a.isConst() {
		return mkBig(ratFloor(a.Rat))
	}
	if a.Op == "to_real" {
		return a.Args[0]
	}
	if n, d, ok := asIntFraction(a); ok {
		return mkFDiv(n, mkBig(d))
	}
	return intern(&Term{Op: "to_int", Sort: SInt, Args: []*Term{a}})
}

// asIntFraction: a real term that is a rational-linear combination of integer terms, as num/den with den > 0.
func asIntFraction(t *Term) (*Term, *big.Int, bool) {
	switch t.Op {
	case "const":
		if t.Sort == SInt {
			return t, big.NewInt(1), true
		}
		if t.Sort == SReal {
			return mkBig(t.Rat.Num()), new(big.Int).Set(t.Rat.Denom()), true
		}
	case "to_real":
		return t.Args[0], big.NewInt(1), true
	case "neg":
		if n, d, ok := asIntFraction(t.Args[0]); ok {
			return mkNeg(n), d, true
		}
	case "+", "-":
		n1, d1, ok1 := asIntFraction(t.Args[0])
		if !ok1 {
			return nil, nil, false
		}
		n2, d2, ok2 := asIntFraction(t.Args[1])
		if !ok2 {
			return nil, nil, false
		}
		g := new(big.Int).GCD(nil, nil, d1, d2)
		l := new(big.Int).Mul(new(big.Int).Quo(d1, g), d2)
		a := mkMul(mkBig(new(big.Int).Quo(l, d1)), n1)
		b := mkMul(mkBig(new(big.Int).Quo(l, d2)), n2)
		if t.Op == "+" {
			return mkAdd(a, b), l, true
		}
		return mkSub(a, b), l, true
	case "*":
		if t.Args[0].isConst() {
			if n, d, ok := asIntFraction(t.Args[1]); ok {
				c := t.Args[0].Rat
				return mkMul(mkBig(c.Num()), n), new(big.Int).Mul(d, c.Denom()), true
			}
		}
		if t.Args[1].isConst() {
			if n, d, ok := asIntFraction(t.Args[0]); ok {
				c := t.Args[1].Rat
				return mkMul(mkBig(c.Num()), n), new(big.Int).Mul(d, c.Denom()), true
			}
		}
	case "ite":
		n1, d1, ok1 := asIntFraction(t.Args[1])
		if !ok1 {
			return nil, nil, false
		}
		n2, d2, ok2 := asIntFraction(t.Args[2])
		if !ok2 {
			return nil, nil, false
		}
		g := new(big.Int).GCD(nil, nil, d1, d2)
		l := new(big.Int).Mul(new(big.Int).Quo(d1, g), d2)
		return mkIte(t.Args[0], mkMul(mkBig(new(big.Int).Quo(l, d1)), n1), mkMul(mkBig(new(big.Int).Quo(l, d2)), n2)), l, true
	case "rdiv":
		if t.Args[1].isConst() && t.Args[1].Rat.Sign() > 0 {
			if n, d, ok := asIntFraction(t.Args[0]); ok {
				c := t.Args[1].Rat
				return mkMul(mkBig(c.Denom()), n), new(big.Int).Mul(d, c.Num()), true
			}
		}
	}
	if t.Sort == SInt {
		return t, big.NewInt(1), true
	}
	return nil, nil, false
}

func ratFloor(r *big.Rat) *big.Int {
	q := new(big.Int)
	m := new(big.Int)
	q.DivMod(r.Num(), r.Denom(), m)
	return q
}

func mkAbs(a *Term) *Term {
	zero := mkInt(0)
	if a.Sort == SReal {
		zero = mkRat(new(big.Rat))
	}
	return mkIte(mkGe(a, zero), a, mkNeg(a))
}

// ---------------------------------------------------------------- printing

func smtInt(n *big.Int) string {
	if n.Sign() < 0 {
		return "(- " + new(big.Int).Neg(n).String() + ")"
	}
	return n.String()
}

func smtRat(r *big.Rat) string {
	neg := r.Sign() < 0
	a := new(big.Rat).Abs(r)
	var s string
	if a.IsInt() {
		s = a.Num().String() + ".0"
	} else {
		s = "(/ " + a.Num().String() + ".0 " + a.Denom().String() + ".0)"
	}
	if neg {
		return "(- " + s + ")"
	}
	return s
}

var smtOp = map[string]string{"+": "+", "-": "-", "*": "*", "neg": "-", "tdiv": "tdiv", "tmod": "tmod", "div": "div", "mod": "mod",
	"ite": "ite", "and": "and", "or": "or", "not": "not", "=>": "=>", "=": "=", "<": "<", "<=": "<=", "to_real": "to_real", "to_int": "to_int", "rdiv": "/"}

// Printer prints a set of terms sharing sub-terms through define-fun.
type Printer struct {
	refs   map[int]int
	names  map[int]string
	decls  map[string]Sort // free variables
	apps   map[string]*Term
	out    strings.Builder
	defs   strings.Builder
	nextID int
}

func newPrinter() *Printer {
	return &Printer{refs: map[int]int{}, names: map[int]string{}, decls: map[string]Sort{}, apps: map[string]*Term{}}
}

func (p *Printer) count(t *Term) {
	p.refs[t.id]++
	if p.refs[t.id] > 1 {
		return
	}
	if t.Op == "var" {
		p.decls[t.Name] = t.Sort
	}
	if t.Op == "app" {
		p.apps[t.Name] = t
	}
	for _, a := range t.Args {
		p.count(a)
	}
}

func (p *Printer) str(t *Term) string {
	if n, ok := p.names[t.id]; ok {
		return n
	}
	var s string
	switch t.Op {
	case "const":
		switch t.Sort {
		case SInt:
			s = smtInt(t.Int)
		case SReal:
			s = smtRat(t.Rat)
		default:
			if t.B {
				s = "true"
			} else {
				s = "false"
			}
		}
		return s
	case "var":
		return smtName(t.Name)
	case "app":
		if len(t.Args) == 0 {
			return smtName(t.Name)
		}
		parts := []string{smtName(t.Name)}
		for _, a := range t.Args {
			parts = append(parts, p.str(a))
		}
		s = "(" + strings.Join(parts, " ") + ")"
	default:
		op, ok := smtOp[t.Op]
		if !ok {
			panic("no smt op for " + t.Op)
		}
		parts := []string{op}
		for _, a := range t.Args {
			parts = append(parts, p.str(a))
		}
		s = "(" + strings.Join(parts, " ") + ")"
	}
	if p.refs[t.id] > 1 && len(s) > 24 {
		p.nextID++
		n := fmt.Sprintf("$t%d", p.nextID)
		fmt.Fprintf(&p.defs, "(define-fun %s () %s %s)\n", n, t.Sort, s)
		p.names[t.id] = n
		return n
	}
	return s
}

func smtName(n string) string {
	return "|" + n + "|"
}

func sortedKeys(m map[string]Sort) []string {
	var ks []string
	for k := range m {
		ks = append(ks, k)
	}
	sort.Strings(ks)
	return ks
}

// termSize: number of distinct nodes
func termSize(ts ...*Term) int {
	seen := map[int]bool{}
	var rec func(t *Term)
	rec = func(t *Term) {
		if seen[t.id] {
			return
		}
		seen[t.id] = true
		for _, a := range t.Args {
			rec(a)
		}
	}
	for _, t := range ts {
		rec(t)
	}
	return len(seen)
}

// substitute variables by name
func substVars(t *Term, m map[string]*Term) *Term {
	memo := map[int]*Term{}
	var rec func(t *Term) *Term
	rec = func(t *Term) *Term {
		if r, ok := memo[t.id]; ok {
			return r
		}
		var r *Term
		switch t.Op {
		case "const":
			r = t
		case "var":
			if v, ok := m[t.Name]; ok {
				r = v
			} else {
				r = t
			}
		default:
			args := make([]*Term, len(t.Args))
			ch := false
			for i, a := range t.Args {
				args[i] = rec(a)
				if args[i] != a {
					ch = true
				}
			}
			if !ch {
				r = t
			} else {
				r = rebuild(t, args)
			}
		}
		memo[t.id] = r
		return r
	}
	return rec(t)
}

// substTerm replaces every occurrence of the subterm old (by identity) with repl.
func substTerm(t *Term, old *Term, repl *Term) *Term {
	memo := map[int]*Term{}
	var rec func(t *Term) *Term
	rec = func(t *Term) *Term {
		if t.id == old.id {
			return repl
		}
		if r, ok := memo[t.id]; ok {
			return r
		}
		r := t
		if t.Op != "const" && t.Op != "var" && len(t.Args) > 0 {
			args := make([]*Term, len(t.Args))
			ch := false
			for i, a := range t.Args {
				args[i] = rec(a)
				if args[i] != a {
					ch = true
				}
			}
			if ch {
				r = rebuild(t, args)
			}
		}
		memo[t.id] = r
		return r
	}
	return rec(t)
}

func rebuild(t *Term, a []*Term) *Term {
	switch t.Op {
	case "app":
		return mkApp(t.Name, t.Sort, a...)
	case "+":
		return mkAdd(a[0], a[1])
	case "-":
		return mkSub(a[0], a[1])
	case "*":
		return mkMul(a[0], a[1])
	case "neg":
		return mkNeg(a[0])
	case "tdiv":
		return mkTDiv(a[0], a[1])
	case "tmod":
		return mkTMod(a[0], a[1])
	case "div":
		return mkFDiv(a[0], a[1])
	case "mod":
		return mkFMod(a[0], a[1])
	case "ite":
		return mkIte(a[0], a[1], a[2])
	case "and":
		return mkAnd(a...)
	case "or":
		return mkOr(a...)
	case "not":
		return mkNot(a[0])
	case "=>":
		return mkImplies(a[0], a[1])
	case "=":
		return mkEq(a[0], a[1])
	case "<":
		return mkLt(a[0], a[1])
	case "<=":
		return mkLe(a[0], a[1])
	case "to_real":
		return toReal(a[0])
	case "to_int":
		return mkFloor(a[0])
	case "rdiv":
		return mkRDiv(a[0], a[1])
	}
	panic("rebuild: " + t.Op)
}
