package main

import (
	"sync/atomic"
	"bytes"
	"context"
	"fmt"
	"math/big"
	"os"
	"os/exec"
	"path/filepath"
	"regexp"
	"sort"
	"strings"
	"sync"
	"time"
)

type SpecDef struct {
	Name   string
	Params []*Term
	Body   *Term
	Sort   Sort
}

var specDefs = map[string]*SpecDef{}
var specDefMu sync.Mutex

// specDef computes the SMT definition of a pure spec function (cached).
func (w *World) specDef(name string) *SpecDef {
	if d, ok := specDefs[name]; ok {
		return d
	}
	d := w.SpecFuncs[name]
	if d == nil {
		return nil
	}
	pk := w.Pkgs[d.Pkg]
	fd := pk.Funcs[d.Name]
	x := newExec(w, "spec:"+name, nil)
	x.frames = []*frame{{pkg: pk}}
	x.specMode = 1
	st := newState()
	names, typs := d.paramNamesTypes()
	var args []Value
	var params []*Term
	for i, n := range names {
		var v *Term
		switch typs[i] {
		case "int":
			v = mkVar("p$"+n, SInt)
			args = append(args, IntV{v})
		case "bool":
			v = mkVar("p$"+n, SBool)
			args = append(args, BoolV{v})
		case "float64":
			v = mkVar("p$"+n, SReal)
			args = append(args, FloatV{v})
		default:
			panic("spec func param type " + typs[i])
		}
		params = append(params, v)
	}
	res := x.inlineCall(pk, fd, args, st)
	sd := &SpecDef{Name: name, Params: params}
	switch r := res.(type) {
	case IntV:
		sd.Body, sd.Sort = r.T, SInt
	case BoolV:
		sd.Body, sd.Sort = r.T, SBool
	case FloatV:
		sd.Body, sd.Sort = toReal(r.T), SReal
	default:
		panic(fmt.Sprintf("spec func %s result %T", name, res))
	}
	if len(st.pc) > 0 {
		panic(fmt.Sprintf("spec func %s: body added path conditions (float rounding or contract call inside a spec function?)", name))
	}
	specDefs[name] = sd
	return sd
}

var uninterp = map[string]string{} // name -> declare-fun line (table functions)

const smtPrelude = `(define-fun tdiv ((a Int) (b Int)) Int (ite (>= a 0) (ite (> b 0) (div a b) (- (div a (- b)))) (ite (> b 0) (- (div (- a) b)) (div (- a) (- b)))))
(define-fun tmod ((a Int) (b Int)) Int (- a (* b (tdiv a b))))
`

// smtText renders hyps |- goal as an SMT-LIB2 script (unsat = valid).
func (w *World) smtText(hyps []*Term, goal *Term, inputs []InputVar, reveal map[string]bool) string {
	p := newPrinter()
	for _, h := range hyps {
		p.count(h)
	}
	ng := mkNot(goal)
	p.count(ng)
	// spec function definitions, dependency order
	var defs []string
	done := map[string]bool{}
	var need func(name string)
	need = func(name string) {
		if done[name] {
			return
		}
		done[name] = true
		if sdl := w.SpecFuncs[name]; sdl != nil && (sdl.Uninterp || (sdl.Opaque && !reveal[name])) {
			// opaque: declared, not defined
			pn, pt := sdl.paramNamesTypes()
			_ = pn
			var as []string
			for _, t := range pt {
				as = append(as, smtSortOf(t))
			}
			defs = append(defs, fmt.Sprintf("(declare-fun %s (%s) %s)", smtName(name), strings.Join(as, " "), smtSortOf(sdl.Results)))
			return
		}
		sd := w.specDef(name)
		if sd == nil {
			return
		}
		q := newPrinter()
		q.count(sd.Body)
		for a := range q.apps {
			need(a)
		}
		// print without sharing
		q.refs = map[int]int{}
		var ps []string
		for _, v := range sd.Params {
			ps = append(ps, fmt.Sprintf("(%s %s)", smtName(v.Name), v.Sort))
		}
		defs = append(defs, fmt.Sprintf("(define-fun %s (%s) %s %s)", smtName(name), strings.Join(ps, " "), sd.Sort, q.str(sd.Body)))
	}
	var appNames []string
	for a := range p.apps {
		appNames = append(appNames, a)
	}
	sort.Strings(appNames)
	for _, a := range appNames {
		need(a)
	}
	var sb strings.Builder
	sb.WriteString("(set-option :produce-models true)\n(set-logic ALL)\n")
	sb.WriteString(smtPrelude)
	for _, a := range appNames {
		if _, ok := w.SpecFuncs[a]; !ok {
			t := p.apps[a]
			var as []string
			for _, x := range t.Args {
				as = append(as, x.Sort.String())
			}
			fmt.Fprintf(&sb, "(declare-fun %s (%s) %s)\n", smtName(a), strings.Join(as, " "), t.Sort)
		}
	}
	for _, d := range defs {
		sb.WriteString(d)
		sb.WriteByte('\n')
	}
	for _, k := range sortedKeys(p.decls) {
		fmt.Fprintf(&sb, "(declare-const %s %s)\n", smtName(k), p.decls[k])
	}
	var asserts []string
	for _, h := range hyps {
		asserts = append(asserts, p.str(h))
	}
	gs := p.str(ng)
	sb.WriteString(p.defs.String())
	for _, a := range asserts {
		fmt.Fprintf(&sb, "(assert %s)\n", a)
	}
	fmt.Fprintf(&sb, "(assert %s)\n(check-sat)\n", gs)
	var vals []string
	seen := map[string]bool{}
	for _, iv := range inputs {
		if iv.T.Op == "var" && p.decls[iv.T.Name] == iv.T.Sort && !seen[iv.T.Name] {
			if _, ok := p.decls[iv.T.Name]; ok {
				seen[iv.T.Name] = true
				vals = append(vals, smtName(iv.T.Name))
			}
		}
	}
	if len(vals) > 0 {
		fmt.Fprintf(&sb, "(get-value (%s))\n", strings.Join(vals, " "))
	}
	return sb.String()
}

func smtSortOf(goType string) string {
	switch strings.TrimSpace(goType) {
	case "int":
		return "Int"
	case "bool":
		return "Bool"
	}
	return "Real"
}

type solverSpec struct {
	name string
	argv func(file string, timeout int) []string
}

var solvers = []solverSpec{
	{"z3-5.1.0", func(f string, t int) []string { return []string{"z3-new", fmt.Sprintf("-T:%d", t), f} }},
	{"cvc5-1.0.3", func(f string, t int) []string {
		return []string{"cvc5", fmt.Sprintf("--tlimit=%d", t*1000), "--produce-models", f}
	}},
	{"z3-4.8.12", func(f string, t int) []string { return []string{"z3", fmt.Sprintf("-T:%d", t), f} }},
}

type solveResult struct {
	status  string // unsat sat unknown
	solver  string
	seconds float64
	output  string
}

// raceSem bounds the number of solver races in flight (3 processes each) so that timeouts are not caused by load.
var raceSem = make(chan struct{}, 5)

func raceSolvers(file string, timeout int) solveResult {
	raceSem <- struct{}{}
	defer func() { <-raceSem }()
	ctx, cancel := context.WithCancel(context.Background())
	defer cancel()
	ch := make(chan solveResult, len(solvers))
	start := time.Now()
	for _, s := range solvers {
		s := s
		go func() {
			argv := s.argv(file, timeout)
			cmd := exec.CommandContext(ctx, argv[0], argv[1:]...)
			var out bytes.Buffer
			cmd.Stdout = &out
			cmd.Stderr = &out
			t0 := time.Now()
			cmd.Run()
			o := out.String()
			first := strings.TrimSpace(strings.SplitN(o, "\n", 2)[0])
			st := "unknown"
			if first == "unsat" || first == "sat" {
				st = first
			}
			ch <- solveResult{status: st, solver: s.name, seconds: time.Since(t0).Seconds(), output: o}
		}()
	}
	var last solveResult
	var outs []string
	for range solvers {
		r := <-ch
		outs = append(outs, r.solver+": "+strings.TrimSpace(firstLines(r.output, 3)))
		if r.status == "unsat" || r.status == "sat" {
			r.seconds = time.Since(start).Seconds()
			return r
		}
		last = r
	}
	last.status = "unknown"
	last.solver = "none"
	last.seconds = time.Since(start).Seconds()
	last.output = strings.Join(outs, "\n")
	return last
}

func firstLines(s string, n int) string {
	ls := strings.Split(s, "\n")
	if len(ls) > n {
		ls = ls[:n]
	}
	return strings.Join(ls, "\n")
}

var reValue = regexp.MustCompile(`\(\|?([^\s|()]+)\|?\s+((?:\(- [^)]+\))|(?:\(/ [^)]+\))|(?:\(- \(/ [^)]+\)\))|[^\s()]+)\)`)

func parseModel(out string) map[string]string {
	m := map[string]string{}
	for _, g := range reValue.FindAllStringSubmatch(out, -1) {
		m[g[1]] = g[2]
	}
	return m
}

type Discharger struct {
	deadline time.Time
	survey   bool
	w        *World
	dir      string
	timeout  int
	sem      chan struct{}
}

func sanitizeFile(s string) string {
	r := strings.NewReplacer("/", "_", "#", "-", "*", "", "(", "", ")", "", " ", "_", "=", "-", ",", "_")
	return r.Replace(s)
}

// discharge one obligation (with batch / split handling)
func (d *Discharger) discharge(o *Obligation) {
	d.sem <- struct{}{}
	defer func() { <-d.sem }()
	if o.Batch != nil {
		d.dischargeBatch(o)
		return
	}
	t0 := d.timeout
	if o.Split != nil && t0 > 6 {
		t0 = 6 // a case split is available: do not spend the whole budget on the unsplit goal
	}
	if n := len(splitGoal(o.Goal)); n > 3 && t0 > 4 {
		t0 = 4 // a large conjunction: go to the conjunct-by-conjunct proof quickly
	}
	r := d.run(o.Name, o.Hyps, o.Goal, o.Inputs, t0, o.Reveal)
	if r.status != "unsat" && o.Split != nil && r.status != "sat" {
		d.dischargeSplit(o)
		return
	}
	if cj := splitGoal(o.Goal); r.status == "unknown" && len(cj) > 1 && !d.survey {
		// prove the conjuncts one by one
		total := r.seconds
		solver := map[string]bool{}
		type cres struct {
			i int
			r solveResult
		}
		results := make([]cres, len(cj))
		var wg sync.WaitGroup
		sem := make(chan struct{}, 6)
		for i, g := range cj {
			i, g := i, g
			wg.Add(1)
			go func() {
				defer wg.Done()
				sem <- struct{}{}
				defer func() { <-sem }()
				// conjunct i may use conjuncts 0..i-1 (each of which is proved in turn), so the chain is sound
				h := append(append([]*Term{}, o.Hyps...), cj[:i]...)
				results[i] = cres{i, d.run(fmt.Sprintf("%s.conj%d", o.Name, i), h, g, o.Inputs, d.timeout, o.Reveal)}
			}()
		}
		wg.Wait()
		allOK := true
		for _, cr := range results {
			total += cr.r.seconds
			if cr.r.status != "unsat" {
				allOK = false
				r = cr.r
				termMu.Lock()
				txt := shortStr(cj[cr.i], 400)
				termMu.Unlock()
				o.Clause += fmt.Sprintf(" [conjunct %d: %s]", cr.i+1, txt)
				break
			}
			solver[cr.r.solver] = true
		}
		if allOK {
			var ss []string
			for k := range solver {
				ss = append(ss, k)
			}
			sort.Strings(ss)
			o.Status = "discharged"
			o.Solver = strings.Join(ss, "+")
			o.Seconds = total
			o.Sub = len(cj)
			return
		}
		r.seconds = total
	}
	if r.status == "sat" && !d.survey {
		r = d.dyadicModel(o, r)
	}
	d.record(o, r)
}

// dyadicModel: a counterexample whose float64 inputs are arbitrary reals cannot be replayed; ask again for one whose
// real-valued inputs are multiples of 2^-24 (exactly representable doubles). Falls back to the original model.
func (d *Discharger) dyadicModel(o *Obligation, r solveResult) solveResult {
	var extra []*Term
	termMu.Lock()
	for _, iv := range o.Inputs {
		if iv.T.Sort == SReal && iv.T.Op == "var" {
			k := freshVar("dy", SInt)
			extra = append(extra, mkEq(mkMul(mkRat(big.NewRat(16777216, 1)), iv.T), toReal(k)))
		}
	}
	termMu.Unlock()
	if len(extra) == 0 {
		return r
	}
	r2 := d.run1(o.Name+".dyadic", append(append([]*Term{}, o.Hyps...), extra...), o.Goal, o.Inputs, d.timeout, o.Reveal)
	if r2.status == "sat" {
		return r2
	}
	return r
}

func (d *Discharger) record(o *Obligation, r solveResult) {
	o.Solver = r.solver
	o.Seconds = r.seconds
	switch r.status {
	case "unsat":
		o.Status = "discharged"
	case "sat":
		o.Status = "failed"
		o.Model = parseModel(r.output)
		o.Output = r.output
	default:
		o.Status = "unknown"
		o.Output = r.output
	}
}

func (d *Discharger) run(name string, hyps []*Term, goal *Term, inputs []InputVar, timeout int, reveal map[string]bool) solveResult {
	// relaxed attempt: without the float exactness facts
	var lite []*Term
	termMu.Lock()
	for _, h := range hyps {
		if !exactnessHyp[h.id] {
			lite = append(lite, h)
		}
	}
	termMu.Unlock()
	// definitions of opaque spec functions hidden first (sound: fewer facts), revealed only if that fails
	if len(reveal) > 0 {
		ht := timeout / 3
		if ht < 4 {
			ht = 4
		}
		cone0 := d.coneOf(lite, goal)
		r := d.run1(name+".hidden", cone0, goal, inputs, ht, nil)
		if r.status == "unsat" {
			return r
		}
	}
	// cone of influence: only the hypotheses transitively sharing a variable or uninterpreted function with the goal
	// (dropping hypotheses is sound; a failure falls through to the larger sets)
	// staged: hypotheses within 1, 2 and 3 sharing steps of the goal first (most obligations are local)
	if len(lite) > 30 {
		prev := 0
		for depth := 1; depth <= 3; depth++ {
			cd := d.coneDepth(lite, goal, depth)
			if len(cd) == prev || len(cd) >= len(lite) {
				continue
			}
			prev = len(cd)
			ct := timeout / 4
			if ct < 3 {
				ct = 3
			}
			r := d.run1(fmt.Sprintf("%s.cone%d", name, depth), cd, goal, inputs, ct, reveal)
			if r.status == "unsat" {
				return r
			}
		}
	}
	cone := d.coneOf(lite, goal)
	if len(cone) < len(lite) && len(lite) > 12 {
		ct := timeout / 3
		if ct < 4 {
			ct = 4
		}
		r := d.run1(name+".cone", cone, goal, inputs, ct, reveal)
		if r.status == "unsat" {
			return r
		}
		if r.status == "sat" && len(reveal) == 0 && d.survey {
			// survey only (speed): a model of the cone usually extends to the whole; the hypotheses left out could
			// still be contradictory on their own (an infeasible path), so checks always go on to the full query
			return r
		}
	}
	if len(lite) < len(hyps) {
		lt := timeout / 2
		if lt < 5 {
			lt = 5
		}
		r := d.run1(name+".lite", lite, goal, inputs, lt, reveal)
		if r.status == "unsat" {
			return r
		}
	}
	return d.run1(name, hyps, goal, inputs, timeout, reveal)
}

func (d *Discharger) symbolsForCone(t *Term, memo map[int]map[string]bool) map[string]bool {
	if m, ok := memo[t.id]; ok {
		return m
	}
	m := map[string]bool{}
	seen := map[int]bool{}
	var rec func(t *Term)
	rec = func(t *Term) {
		if seen[t.id] {
			return
		}
		seen[t.id] = true
		switch t.Op {
		case "var":
			m[t.Name] = true
		case "app":
			if sd := d.w.SpecFuncs[t.Name]; sd == nil || sd.Uninterp || sd.Opaque {
				m["@"+t.Name] = true
			}
		}
		for _, a := range t.Args {
			rec(a)
		}
	}
	rec(t)
	memo[t.id] = m
	return m
}

func (d *Discharger) coneOf(hyps []*Term, goal *Term) []*Term {
	return d.coneDepth(hyps, goal, 1<<30)
}

func (d *Discharger) coneDepth(hyps []*Term, goal *Term, depth int) []*Term {
	termMu.Lock()
	defer termMu.Unlock()
	memo := map[int]map[string]bool{}
	syms := map[string]bool{}
	for k := range d.symbolsForCone(goal, memo) {
		syms[k] = true
	}
	in := make([]bool, len(hyps))
	changed := true
	for round := 0; changed && round < depth; round++ {
		changed = false
		newSyms := map[string]bool{}
		for i, h := range hyps {
			if in[i] {
				continue
			}
			hs := d.symbolsForCone(h, memo)
			hit := len(hs) == 0
			for k := range hs {
				if syms[k] {
					hit = true
					break
				}
			}
			if hit {
				in[i] = true
				changed = true
				for k := range hs {
					newSyms[k] = true
				}
			}
		}
		for k := range newSyms {
			syms[k] = true
		}
	}
	var out []*Term
	for i, h := range hyps {
		if in[i] {
			out = append(out, h)
		}
	}
	return out
}

func (d *Discharger) run1(name string, hyps []*Term, goal *Term, inputs []InputVar, timeout int, reveal map[string]bool) solveResult {
	if !d.deadline.IsZero() && time.Now().After(d.deadline) && timeout > 2 {
		// the check's overall solver budget is used up (this only happens when many obligations no longer
		// discharge): finish quickly, everything still open is reported as not discharged
		timeout = 2
	}
	termMu.Lock()
	txt := d.w.smtText(hyps, goal, inputs, reveal)
	termMu.Unlock()
	f := filepath.Join(d.dir, sanitizeFile(name)+".smt2")
	os.WriteFile(f, []byte(txt), 0644)
	return raceSolvers(f, timeout)
}

var termMu sync.Mutex

func (d *Discharger) dischargeBatch(o *Obligation) {
	// conjunction of (hyps_i => goal_i)
	termMu.Lock()
	var cs []*Term
	for _, m := range o.Batch {
		cs = append(cs, mkImplies(mkAnd(m.Hyps...), m.Goal))
	}
	goal := mkAnd(cs...)
	termMu.Unlock()
	r := d.run(o.Name, nil, goal, o.Inputs, d.timeout, o.Reveal)
	if r.status == "unsat" {
		d.record(o, r)
		o.Sub = len(o.Batch)
		return
	}
	// find the failing member
	total := 0.0
	for i, m := range o.Batch {
		mr := d.run(fmt.Sprintf("%s.%d", o.Name, i), m.Hyps, m.Goal, o.Inputs, d.timeout, o.Reveal)
		total += mr.seconds
		if mr.status != "unsat" {
			d.record(o, mr)
			o.Clause = fmt.Sprintf("%s at %s", m.Clause, m.Pos)
			o.Pos = m.Pos
			o.Hyps, o.Goal = m.Hyps, m.Goal
			return
		}
	}
	o.Status = "discharged"
	o.Solver = "mixed"
	o.Seconds = total
	o.Sub = len(o.Batch)
}

func (d *Discharger) dischargeSplit(o *Obligation) {
	splits := o.Splits
	if len(splits) == 0 {
		splits = []*SplitSpec{o.Split}
	}
	total := 0.0
	for _, sp := range splits {
		termMu.Lock()
		cov := mkAnd(mkLe(mkInt(sp.Lo), sp.Term), mkLe(sp.Term, mkInt(sp.Hi)))
		termMu.Unlock()
		r := d.run(o.Name+".cover", o.Hyps, cov, o.Inputs, d.timeout, o.Reveal)
		total += r.seconds
		if r.status != "unsat" {
			d.record(o, r)
			o.Clause += " [split coverage: " + sp.Text + " in range]"
			return
		}
	}
	// cartesian product of the cases
	combos := [][]int64{{}}
	for _, sp := range splits {
		var next [][]int64
		for _, c := range combos {
			for k := sp.Lo; k <= sp.Hi; k++ {
				next = append(next, append(append([]int64{}, c...), k))
			}
		}
		combos = next
	}
	type sub struct {
		idx int
		tag string
		r   solveResult
	}
	results := make([]sub, len(combos))
	var wg sync.WaitGroup
	sem := make(chan struct{}, 6)
	var aborted int32 // a case that does not discharge decides the obligation: the remaining cases are not attempted
	for ci, combo := range combos {
		ci, combo := ci, combo
		wg.Add(1)
		go func() {
			defer wg.Done()
			sem <- struct{}{}
			defer func() { <-sem }()
			if atomic.LoadInt32(&aborted) != 0 {
				results[ci] = sub{ci, "", solveResult{status: "skipped"}}
				return
			}
			termMu.Lock()
			h := append([]*Term{}, o.Hyps...)
			g := o.Goal
			var tags []string
			exact := map[int]bool{}
			for _, x := range h {
				if exactnessHyp[x.id] {
					exact[x.id] = true
				}
			}
			for si, sp := range splits {
				k := combo[si]
				tags = append(tags, fmt.Sprintf("%s=%d", sp.Text, k))
				if sp.Term.Op != "var" && sp.Term.Op != "const" {
					// a compound split term: its occurrences fold to the case constant; the defining equation stays
					for i := range h {
						was := exactnessHyp[h[i].id]
						h[i] = substTerm(h[i], sp.Term, mkInt(k))
						if was {
							exactnessHyp[h[i].id] = true
						}
					}
					g = substTerm(g, sp.Term, mkInt(k))
				}
				h = append(h, mkEq(sp.Term, mkInt(k)))
				if sp.Term.Op == "var" {
					m := map[string]*Term{sp.Term.Name: mkInt(k)}
					for i := range h {
						was := exactnessHyp[h[i].id]
						h[i] = substVars(h[i], m)
						if was {
							exactnessHyp[h[i].id] = true
						}
					}
					g = substVars(g, m)
				}
			}
			if g.isFalse() && os.Getenv("GOVC_DEBUG") != "" {
				fmt.Fprintf(os.Stderr, "DEBUG split %s: goal folds to false; original goal: %s\n", strings.Join(tags, ","), shortStr(o.Goal, 6000))
			}
			termMu.Unlock()
			tag := strings.Join(tags, ",")
			rr := d.run(fmt.Sprintf("%s.case_%s", o.Name, sanitizeFile(tag)), h, g, o.Inputs, d.timeout, o.Reveal)
			if rr.status != "unsat" {
				atomic.StoreInt32(&aborted, 1)
			}
			results[ci] = sub{ci, tag, rr}
		}()
	}
	wg.Wait()
	solver := map[string]bool{}
	// report the failing case (a skipped one is only a consequence of it)
	for _, s := range results {
		if s.r.status != "unsat" && s.r.status != "skipped" {
			total += s.r.seconds
			d.record(o, s.r)
			o.Clause += fmt.Sprintf(" [case %s]", s.tag)
			o.Seconds = total
			return
		}
	}
	for _, s := range results {
		total += s.r.seconds
		if s.r.status != "unsat" {
			d.record(o, s.r)
			o.Clause += fmt.Sprintf(" [case %s]", s.tag)
			o.Seconds = total
			return
		}
		solver[s.r.solver] = true
	}
	var ss []string
	for k := range solver {
		ss = append(ss, k)
	}
	sort.Strings(ss)
	o.Status = "discharged"
	o.Solver = strings.Join(ss, "+")
	o.Seconds = total
	o.Sub = len(combos) + len(splits)
}

// splitGoal: conjuncts of a goal, distributing implications over conjunctions.
func splitGoal(g *Term) []*Term {
	if g == nil {
		return nil
	}
	termMu.Lock()
	defer termMu.Unlock()
	var rec func(g *Term) []*Term
	rec = func(g *Term) []*Term {
		switch g.Op {
		case "and":
			var out []*Term
			for _, a := range g.Args {
				out = append(out, rec(a)...)
			}
			return out
		case "=>":
			var out []*Term
			for _, c := range rec(g.Args[1]) {
				out = append(out, mkImplies(g.Args[0], c))
			}
			return out
		case "or":
			// (A1 and A2) or P  ==  (A1 or P) and (A2 or P)
			for i, a := range g.Args {
				if parts := rec(a); len(parts) > 1 {
					var rest []*Term
					rest = append(rest, g.Args[:i]...)
					rest = append(rest, g.Args[i+1:]...)
					var out []*Term
					for _, p := range parts {
						out = append(out, mkOr(append([]*Term{p}, rest...)...))
					}
					return out
				}
			}
		}
		return []*Term{g}
	}
	return rec(g)
}

// shortStr renders a term as SMT text but stops after budget characters (terms are DAGs: never print them in full as trees).
func shortStr(t *Term, budget int) string {
	var sb strings.Builder
	var rec func(t *Term)
	rec = func(t *Term) {
		if sb.Len() > budget {
			return
		}
		switch t.Op {
		case "const":
			switch t.Sort {
			case SInt:
				sb.WriteString(smtInt(t.Int))
			case SReal:
				sb.WriteString(smtRat(t.Rat))
			default:
				fmt.Fprint(&sb, t.B)
			}
		case "var":
			sb.WriteString(t.Name)
		default:
			sb.WriteString("(")
			if t.Op == "app" {
				sb.WriteString(t.Name)
			} else {
				sb.WriteString(t.Op)
			}
			for _, a := range t.Args {
				sb.WriteString(" ")
				rec(a)
				if sb.Len() > budget {
					break
				}
			}
			sb.WriteString(")")
		}
	}
	rec(t)
	s := sb.String()
	if len(s) > budget {
		s = s[:budget] + "..."
	}
	return s
}
