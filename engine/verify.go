package main

import (
	"fmt"
	"go/ast"
	"go/constant"
	"go/types"
	"os"
	"sort"
	"strings"
	"time"
)

type UnitResult struct {
	Name       string
	Kind       string // func lemma ghost
	Decl       *Decl
	Obls       []*Obligation
	Undecided  string // non-empty: outside subset, with reason
	Summarised []string
	External   []string
	Assumed    []string
	Callees    []string // contract callees used
	Lemmas     []string // lemmas instantiated by use clauses
	Returns    int
}

func (w *World) unitName(d *Decl) string {
	return d.PkgName + "." + d.Name
}

func (w *World) verifyDecl(d *Decl) (res *UnitResult) {
	res = &UnitResult{Name: w.unitName(d), Kind: d.Kind, Decl: d}
	x := newExec(w, res.Name, d)
	x.deadline = time.Now().Add(time.Duration(w.UnitBudget) * time.Second)
	defer func() {
		if r := recover(); r != nil {
			if u, ok := r.(unsupported); ok {
				if os.Getenv("GOVC_DEBUG") != "" {
					panic(r)
				}
				res.Undecided = u.msg
				res.Obls = nil
				return
			}
			panic(r)
		}
	}()
	switch d.Kind {
	case "func":
		x.verifyFunc(d, res)
	case "lemma":
		x.verifyLemma(d, res)
	case "ghost":
		x.verifyGhost(d, res)
	}
	res.Obls = x.obls
	// batch side conditions
	if len(x.side) > 0 {
		b := &Obligation{Name: res.Name + "/arith", Kind: "arith", Fn: res.Name, Batch: x.side, Inputs: x.inputs,
			Clause: fmt.Sprintf("%d side conditions: no int overflow, float operations on dyadic values exact, float->int in range", len(x.side))}
		res.Obls = append(res.Obls, b)
	}
	for _, o := range res.Obls {
		o.Tags = d.Tags
	}
	for k := range x.summarised {
		res.Summarised = append(res.Summarised, k)
	}
	sort.Strings(res.Summarised)
	for k := range x.external {
		res.External = append(res.External, k)
	}
	sort.Strings(res.External)
	res.Assumed = x.assumed
	for k := range x.callees {
		res.Callees = append(res.Callees, k)
	}
	sort.Strings(res.Callees)
	for k := range x.usedLemmas {
		res.Lemmas = append(res.Lemmas, k)
	}
	sort.Strings(res.Lemmas)
	return res
}

func mutatesParam(fd *ast.FuncDecl, info *types.Info, v *types.Var) bool {
	found := false
	ast.Inspect(fd.Body, func(n ast.Node) bool {
		as, ok := n.(*ast.AssignStmt)
		if !ok {
			return true
		}
		for _, l := range as.Lhs {
			if se, ok := l.(*ast.SelectorExpr); ok {
				if id, ok := se.X.(*ast.Ident); ok && info.Uses[id] == v {
					found = true
				}
			}
		}
		return true
	})
	return found
}

// specialization of an ensures clause: implies(p1 == c1 && p2 == c2 ..., Q) is proved by executing the body
// with those parameters bound to the constants (equivalent, and lets constant folding do the case analysis).
func specializationOf(pk *Pkg, c *Clause) map[string]int64 {
	fd := pk.Funcs[c.FnName]
	if fd == nil || len(fd.Body.List) != 1 {
		return nil
	}
	ret, ok := fd.Body.List[0].(*ast.ReturnStmt)
	if !ok || len(ret.Results) != 1 {
		return nil
	}
	call, ok := ret.Results[0].(*ast.CallExpr)
	if !ok {
		return nil
	}
	if id, ok := call.Fun.(*ast.Ident); !ok || id.Name != "implies" || len(call.Args) != 2 {
		return nil
	}
	m := map[string]int64{}
	var walk func(e ast.Expr) bool
	walk = func(e ast.Expr) bool {
		switch b := e.(type) {
		case *ast.ParenExpr:
			return walk(b.X)
		case *ast.BinaryExpr:
			if b.Op.String() == "&&" {
				return walk(b.X) && walk(b.Y)
			}
			if b.Op.String() == "==" {
				id, ok1 := b.X.(*ast.Ident)
				tv, ok2 := pk.Info.Types[b.Y]
				if ok1 && ok2 && tv.Value != nil {
					if v, ok := constInt64(tv); ok {
						m[id.Name] = v
						return true
					}
				}
			}
		}
		return false
	}
	if !walk(call.Args[0]) || len(m) == 0 {
		return nil
	}
	return m
}

func constInt64(tv types.TypeAndValue) (int64, bool) {
	if tv.Value == nil || tv.Value.Kind() != constant.Int {
		return 0, false
	}
	return constant.Int64Val(tv.Value)
}

func specKey(m map[string]int64) string {
	var ks []string
	for k := range m {
		ks = append(ks, k)
	}
	sort.Strings(ks)
	var ps []string
	for _, k := range ks {
		ps = append(ps, fmt.Sprintf("%s=%d", k, m[k]))
	}
	return strings.Join(ps, ",")
}

func (x *Exec) verifyFunc(d *Decl, res *UnitResult) {
	pk := x.w.Pkgs[d.Pkg]
	fd := pk.Funcs[d.Name]
	if fd == nil {
		unsup("function %s not found", d.Name)
	}
	// group ensures clauses by specialization
	groups := map[string][]*Clause{}
	fixedOf := map[string]map[string]int64{}
	var general []*Clause
	var order []string
	for _, c := range d.Clauses {
		if c.Kind != "ensures" {
			continue
		}
		if m := specializationOf(pk, c); m != nil {
			k := specKey(m)
			if _, ok := groups[k]; !ok {
				order = append(order, k)
			}
			groups[k] = append(groups[k], c)
			fixedOf[k] = m
			continue
		}
		general = append(general, c)
	}
	x.verifyFuncPass(d, res, fd, nil, general, false)
	for _, k := range order {
		x.verifyFuncPass(d, res, fd, fixedOf[k], groups[k], true)
	}
	x.verifyDerived(d, fd)
}

// verifyDerived: `derived` clauses follow from requires + ensures alone (fresh parameters and result, no body).
func (x *Exec) verifyDerived(d *Decl, fd *ast.FuncDecl) {
	has := false
	for _, c := range d.Clauses {
		if c.Kind == "derived" {
			has = true
		}
	}
	if !has {
		return
	}
	pk := x.w.Pkgs[d.Pkg]
	obj := pk.Info.Defs[fd.Name].(*types.Func)
	sig := obj.Type().(*types.Signature)
	x.frames = []*frame{{fn: fd, pkg: pk, decl: d}}
	x.onlyPost = false
	x.panicsIf = nil
	st := newState()
	var cargs []Value
	bind := func(v *types.Var) {
		if v.Name() == "" || v.Name() == "_" {
			return
		}
		cargs = append(cargs, x.freshValue(v.Name(), v.Type(), 0, st, false))
	}
	if sig.Recv() != nil {
		bind(sig.Recv())
	}
	for i := 0; i < sig.Params().Len(); i++ {
		bind(sig.Params().At(i))
	}
	var rvals []Value
	for i := 0; i < sig.Results().Len(); i++ {
		v := x.freshValue("result", sig.Results().At(i).Type(), 0, st, false)
		rvals = append(rvals, v)
	}
	var gvals []Value
	for _, c := range d.Clauses {
		if c.Kind == "ghost" {
			switch c.SplitHi {
			case "int":
				gvals = append(gvals, IntV{freshVar("g_"+c.SplitLo, SInt)})
			case "bool":
				gvals = append(gvals, BoolV{freshVar("g_"+c.SplitLo, SBool)})
			default:
				gvals = append(gvals, FloatV{freshVar("g_"+c.SplitLo, SReal)})
			}
		}
	}
	for _, c := range d.Clauses {
		switch c.Kind {
		case "requires":
			st.assume(x.evalClause(pk, c, cargs, st))
		case "panics_iff":
			st.assume(mkNot(x.evalClause(pk, c, cargs, st)))
		}
	}
	all := append(append(append([]Value{}, cargs...), gvals...), rvals...)
	for _, c := range d.Clauses {
		if c.Kind == "ensures" {
			st.assume(x.evalClause(pk, c, all, st))
		}
	}
	for _, c := range d.Clauses {
		if c.Kind == "derived" {
			sm := x.specMode
			x.oblige("derived", st, x.evalClause(pk, c, all, st), fd, "derived "+c.Text)
			x.specMode = sm
		}
	}
}

func (x *Exec) verifyFuncPass(d *Decl, res *UnitResult, fd *ast.FuncDecl, fixed map[string]int64, ensures []*Clause, onlyPost bool) {
	pk := x.w.Pkgs[d.Pkg]
	obj := pk.Info.Defs[fd.Name].(*types.Func)
	sig := obj.Type().(*types.Signature)
	fr := &frame{fn: fd, pkg: pk, decl: d}
	x.frames = []*frame{fr}
	x.onlyPost = onlyPost
	x.panicsIf = nil
	x.ghosts = map[string]Value{}
	if !onlyPost {
		x.inputs = nil
	}
	for i, l := range loopsOf(fd) {
		x.loopInfo[l] = i + 1
	}
	st := newState()
	var cargs []Value // clause args: named receiver + named params
	type refParam struct {
		name string
		id   int
		t    *types.Named
	}
	var refParams []refParam
	x.noInvFor = map[*types.Named]bool{}
	for _, td := range x.w.TypeInvs {
		if td.Pkg != d.Pkg {
			continue
		}
		for _, e := range td.Estab {
			if e == d.Name {
				if o := pk.Types.Scope().Lookup(td.Name); o != nil {
					if n, ok := o.Type().(*types.Named); ok {
						x.noInvFor[n] = true
					}
				}
			}
		}
	}
	bind := func(v *types.Var) {
		if v.Name() == "" || v.Name() == "_" {
			return
		}
		var val Value
		if c, ok := fixed[v.Name()]; ok {
			val = IntV{mkInt(c)}
		} else {
			val = x.freshValue(v.Name(), v.Type(), 0, st, !onlyPost)
		}
		if s, ok := val.(*StructV); ok && mutatesParam(fd, pk.Info, v) {
			x.heapN++
			id := x.heapN
			st.heap[id] = map[string]Value{}
			for k, fv := range s.F {
				st.setField(id, k, fv)
			}
			val = RefV{ID: id, T: s.T}
			refParams = append(refParams, refParam{v.Name(), id, s.T})
		}
		st.vars[v] = val
		cargs = append(cargs, val)
	}
	if sig.Recv() != nil {
		bind(sig.Recv())
	}
	for i := 0; i < sig.Params().Len(); i++ {
		bind(sig.Params().At(i))
	}
	for _, c := range d.Clauses {
		switch c.Kind {
		case "requires":
			st.assume(x.evalClause(pk, c, x.frozenArgs(cargs, st), st))
		case "panics_iff":
			t := x.evalClause(pk, c, x.frozenArgs(cargs, st), st)
			if x.panicsIf == nil {
				x.panicsIf = t
			} else {
				x.panicsIf = mkOr(x.panicsIf, t)
			}
		}
	}
	if st.dead() {
		return // specialization contradicts the precondition: nothing to prove
	}
	for _, c := range d.Clauses {
		if c.Kind == "use" && c.FnName != "" && c.SplitVar == "" {
			rc := &Clause{Kind: "use", FnName: c.FnName + "_req", Text: c.Text}
			fa := x.frozenArgs(cargs, st)
			if c.Cond {
				st.assume(mkImplies(x.evalClause(pk, rc, fa, st), x.evalClause(pk, c, fa, st)))
			} else {
				x.oblige("lemma-pre", st, x.evalClause(pk, rc, fa, st), fd, "requires of lemma instance "+c.Text)
				st.assume(x.evalClause(pk, c, fa, st))
			}
			x.usedLemmas[strings.TrimSpace(c.Text[:strings.Index(c.Text, "(")])] = true
		}
	}
	x.noInvFor = map[*types.Named]bool{}
	x.entry = st.clone()
	entryArgs := x.frozenArgs(cargs, st)
	if fd.Type.Results != nil {
		for _, f := range fd.Type.Results.List {
			for _, n := range f.Names {
				if o, ok := pk.Info.Defs[n].(*types.Var); ok {
					st.vars[o] = x.zero(o.Type())
				}
			}
		}
	}
	end := x.execBlock(fd.Body.List, st)
	if end != nil && !end.dead() {
		if sig.Results().Len() > 0 {
			unsup("missing return")
		}
		fr.rets = append(fr.rets, &retRec{st: end})
	}
	if !onlyPost {
		res.Returns = len(fr.rets)
		splitOf[d] = nil
		var gv []Value
		for _, c := range d.Clauses {
			if c.Kind == "ghost" {
				g, _ := x.ghostValue(c.SplitLo)
				gv = append(gv, g)
			}
		}
		for _, c := range d.Clauses {
			if c.Kind == "split" && c.FnName != "" {
				t := x.evalClause(pk, c, append(append([]Value{}, entryArgs...), gv...), x.entry.clone())
				var lo, hi int64
				fmt.Sscan(c.SplitLo, &lo)
				fmt.Sscan(c.SplitHi, &hi)
				splitOf[d] = append(splitOf[d], &SplitSpec{Term: t, Lo: lo, Hi: hi, Text: c.Text})
			}
		}
	}
	established := false
	var invDecl *Decl
	if sig.Results().Len() == 1 {
		if p, ok := sig.Results().At(0).Type().(*types.Pointer); ok {
			if n, ok := p.Elem().(*types.Named); ok {
				if td := x.typeInvDecl(n); td != nil {
					for _, e := range td.Estab {
						if e == d.Name {
							established = true
							invDecl = td
						}
					}
				}
			}
		}
	}
	suffix := ""
	if fixed != nil {
		suffix = "@" + specKey(fixed)
	}
	for _, r := range fr.rets {
		rs := r.st
		var rvals []Value
		if t, ok := r.v.(*TupleV); ok {
			rvals = t.Vs
		} else if r.v != nil {
			rvals = []Value{r.v}
		}
		postArgs := make([]Value, len(cargs))
		for i, a := range cargs {
			if rv, ok := a.(RefV); ok {
				postArgs[i] = x.freeze(rv, rs)
			} else {
				postArgs[i] = entryArgs[i]
			}
		}
		if !onlyPost {
			if x.panicsIf != nil {
				x.oblige("panics_iff.ret", rs, mkNot(x.panicsIf), fd, "normal return only when the panic condition is false")
				rs.assume(mkNot(x.panicsIf))
			}
			// frame and shape of objects modified through pointer parameters
			for _, rp := range refParams {
				mod := map[string]bool{}
				for _, mf := range append(append([]string{}, d.Modifies...), d.Memo...) {
					if strings.HasPrefix(mf, rp.name+".") {
						mod[strings.TrimPrefix(mf, rp.name+".")] = true
					}
				}
				for _, fname := range sortedFieldNames(x.entry.heap[rp.id]) {
					before := x.entry.heap[rp.id][fname]
					after := rs.heap[rp.id][fname]
					if mod[fname] {
						x.checkShape(rp.t, fname, after, rs, fd)
						continue
					}
					if !sameValue(before, after) {
						eq, ok := x.tryEqual(before, after, rs)
						if !ok {
							eq = tFalse
						}
						x.oblige("frame", rs, eq, fd, "field "+rp.name+"."+fname+" is not in the modifies clause and keeps its value")
					}
				}
			}
			if sig.Results().Len() == 1 {
				if _, ok := sig.Results().At(0).Type().Underlying().(*types.Pointer); ok && !d.nullable() && !d.Sweep {
					switch s := r.v.(type) {
					case *StructV:
						x.oblige("post", rs, mkNot(s.Nil), fd, "result != nil")
					case NilV:
						x.oblige("post", rs, tFalse, fd, "result != nil")
					}
				}
			}
			if established {
				if s, ok := r.v.(*StructV); ok {
					for _, fname := range sortedFieldNames(s.F) {
						x.checkShape(s.T, fname, s.F[fname], rs, fd)
					}
					tp := x.w.Pkgs[invDecl.Pkg]
					for _, c := range invDecl.Clauses {
						if c.Kind == "invariant" && c.FnName != "" {
							t := x.evalClause(tp, c, []Value{s}, rs)
							x.oblige("typeinv", rs, mkOr(s.Nil, t), fd, "type invariant of "+invDecl.Name+": "+c.Text)
						}
					}
				}
			}
		} else if x.panicsIf != nil {
			rs.assume(mkNot(x.panicsIf))
		}
		var gvals []Value
		for _, c := range d.Clauses {
			if c.Kind == "ghost" {
				g, _ := x.ghostValue(c.SplitLo)
				gvals = append(gvals, g)
			}
		}
		for _, c := range ensures {
			t := x.evalClause(pk, c, append(append(append([]Value{}, postArgs...), gvals...), rvals...), rs)
			x.oblige("post"+suffix, rs, t, fd, "ensures "+c.Text)
		}
	}
	if len(fr.rets) == 0 && x.panicsIf == nil && !onlyPost {
		unsup("no normal return path")
	}
	x.onlyPost = false
}

var splitOf = map[*Decl][]*SplitSpec{}

func (d *Decl) nullable() bool {
	for _, c := range d.Clauses {
		if c.Kind == "ensures" && strings.Contains(c.Text, "result == nil") {
			return true
		}
	}
	return false
}

func (x *Exec) frozenArgs(args []Value, st *State) []Value {
	out := make([]Value, len(args))
	for i, a := range args {
		out[i] = x.freeze(a, st)
	}
	return out
}

func (x *Exec) verifyLemma(d *Decl, res *UnitResult) {
	pk := x.w.Pkgs[d.Pkg]
	x.frames = []*frame{{pkg: pk}}
	x.specMode = 1
	st := newState()
	// parameters from the first clause function's signature
	var first *ast.FuncDecl
	for _, c := range d.Clauses {
		if c.FnName != "" {
			first = pk.Funcs[c.FnName]
			break
		}
	}
	if first == nil {
		unsup("lemma without clauses")
	}
	var args []Value
	for _, f := range first.Type.Params.List {
		for _, n := range f.Names {
			o := pk.Info.Defs[n].(*types.Var)
			args = append(args, x.freshValue(n.Name, o.Type(), 0, st, true))
		}
	}
	for _, c := range d.Clauses {
		if c.Kind == "requires" {
			st.assume(x.evalClause(pk, c, args, st))
		}
	}
	for _, c := range d.Clauses {
		if c.Kind == "use" && c.FnName != "" {
			rc := &Clause{Kind: "use", FnName: c.FnName + "_req", Text: c.Text}
			if c.Cond {
				st.assume(mkImplies(x.evalClause(pk, rc, args, st), x.evalClause(pk, c, args, st)))
			} else {
				x.oblige("lemma-pre", st, x.evalClause(pk, rc, args, st), nil, "requires of lemma instance "+c.Text)
				st.assume(x.evalClause(pk, c, args, st))
			}
			x.usedLemmas[strings.TrimSpace(c.Text[:strings.Index(c.Text, "(")])] = true
		}
	}
	for _, c := range d.Clauses {
		if c.Kind == "split" && c.FnName != "" {
			t := x.evalClause(pk, c, args, st)
			var lo, hi int64
			fmt.Sscan(c.SplitLo, &lo)
			fmt.Sscan(c.SplitHi, &hi)
			splitOf[d] = append(splitOf[d], &SplitSpec{Term: t, Lo: lo, Hi: hi, Text: c.Text})
		}
	}
	for _, c := range d.Clauses {
		if c.Kind == "ensures" {
			t := x.evalClause(pk, c, args, st)
			x.oblige("post", st, t, nil, "lemma "+d.Name+" ensures "+c.Text)
		}
	}
}

func (x *Exec) verifyGhost(d *Decl, res *UnitResult) {
	pk := x.w.Pkgs[d.Pkg]
	fd := pk.Funcs[d.Name]
	if fd == nil {
		unsup("ghost function %s not generated", d.Name)
	}
	fr := &frame{fn: fd, pkg: pk, decl: d}
	x.frames = []*frame{fr}
	for i, l := range loopsOf(fd) {
		x.loopInfo[l] = i + 1
	}
	x.ghostUnit = true
	st := newState()
	var args []Value
	for _, f := range fd.Type.Params.List {
		for _, n := range f.Names {
			o := pk.Info.Defs[n].(*types.Var)
			v := x.freshValue(n.Name, o.Type(), 0, st, true)
			st.vars[o] = v
			args = append(args, v)
		}
	}
	for _, c := range d.Clauses {
		if c.Kind == "requires" {
			st.assume(x.evalClause(pk, c, args, st))
		}
	}
	for _, c := range d.Clauses {
		if c.Kind == "split" && c.FnName != "" {
			t := x.evalClause(pk, c, args, st)
			var lo, hi int64
			fmt.Sscan(c.SplitLo, &lo)
			fmt.Sscan(c.SplitHi, &hi)
			splitOf[d] = append(splitOf[d], &SplitSpec{Term: t, Lo: lo, Hi: hi, Text: c.Text})
		}
	}
	x.entry = st.clone()
	end := x.execBlock(fd.Body.List, st)
	if end != nil && !end.dead() {
		fr.rets = append(fr.rets, &retRec{st: end})
	}
	res.Returns = len(fr.rets)
	for _, r := range fr.rets {
		for _, c := range d.Clauses {
			if c.Kind == "ensures" {
				t := x.evalClause(pk, c, args, r.st)
				x.oblige("post", r.st, t, nil, "ghost "+d.Name+" ensures "+c.Text)
			}
		}
	}
}

// isMutableGlobal: package-level variable assigned somewhere in the module (structural scan).
func (w *World) isMutableGlobal(o *types.Var) bool {
	if w.mutGlobals == nil {
		w.mutGlobals = map[*types.Var]bool{}
		for _, pk := range w.Order {
			for _, f := range pk.Files {
				ast.Inspect(f, func(n ast.Node) bool {
					mark := func(e ast.Expr) {
						for {
							switch y := e.(type) {
							case *ast.IndexExpr:
								e = y.X
								continue
							case *ast.SelectorExpr:
								if id, ok := y.X.(*ast.Ident); ok {
									if _, isPkg := pk.Info.Uses[id].(*types.PkgName); isPkg {
										if v, ok := pk.Info.Uses[y.Sel].(*types.Var); ok {
											w.mutGlobals[v] = true
										}
										return
									}
								}
								e = y.X
								continue
							case *ast.ParenExpr:
								e = y.X
								continue
							}
							break
						}
						if id, ok := e.(*ast.Ident); ok {
							if v, ok := pk.Info.Uses[id].(*types.Var); ok && v.Pkg() != nil && v.Parent() == v.Pkg().Scope() {
								w.mutGlobals[v] = true
							}
						}
					}
					switch y := n.(type) {
					case *ast.AssignStmt:
						for _, l := range y.Lhs {
							mark(l)
						}
					case *ast.IncDecStmt:
						mark(y.X)
					case *ast.UnaryExpr:
						if y.Op.String() == "&" {
							mark(y.X)
						}
					}
					return true
				})
			}
		}
	}
	return w.mutGlobals[o]
}

func (w *World) lemmaByName(name string) *Decl {
	for _, d := range w.Lemmas {
		if d.Kind == "lemma" && d.Name == name {
			return d
		}
	}
	return nil
}

// checkEstablishedBy: structural scan behind every type invariant. Objects of a type with an invariant may be
// created (new(T), T{}, &T{}) and have their fields assigned only inside the functions listed after
// established_by (whose contracts prove the invariant) -- otherwise assuming the invariant for every *T is unsound.
// checkMemoFields: a field declared `memo recv.f` on function F is mentioned nowhere in the module except inside F
// (so hiding F's write to it from F's callers is sound).
func (w *World) checkMemoFields() []string {
	var problems []string
	for key, d := range w.Contracts {
		for _, mf := range d.Memo {
			parts := strings.SplitN(mf, ".", 2)
			if len(parts) != 2 {
				problems = append(problems, key+": bad memo clause "+mf)
				continue
			}
			for _, q := range w.Order {
				for _, f := range q.Files {
					if f == q.GenFile {
						continue
					}
					for _, dcl := range f.Decls {
						fd, ok := dcl.(*ast.FuncDecl)
						if !ok || fd.Body == nil || q.Name+"."+funcKey(fd) == key {
							continue
						}
						ast.Inspect(fd.Body, func(n ast.Node) bool {
							if se, ok := n.(*ast.SelectorExpr); ok && se.Sel.Name == parts[1] {
								if sel := q.Info.Selections[se]; sel != nil && sel.Kind() == types.FieldVal {
									problems = append(problems, fmt.Sprintf("%s: memo field %s is also accessed in %s.%s", key, parts[1], q.Name, funcKey(fd)))
								}
							}
							return true
						})
					}
				}
			}
		}
	}
	sort.Strings(problems)
	return problems
}

func (w *World) checkEstablishedBy() []string {
	var problems []string
	for key, td := range w.TypeInvs {
		pk := w.Pkgs[td.Pkg]
		allowed := map[string]bool{}
		for _, e := range td.Estab {
			allowed[e] = true
		}
		tobj := pk.Types.Scope().Lookup(td.Name)
		if tobj == nil {
			problems = append(problems, key+": type not found")
			continue
		}
		named, _ := tobj.Type().(*types.Named)
		isT := func(t types.Type) bool {
			if t == nil {
				return false
			}
			if p, ok := t.(*types.Pointer); ok {
				t = p.Elem()
			}
			n, ok := t.(*types.Named)
			return ok && n == named
		}
		for _, q := range w.Order {
			for _, f := range q.Files {
				if f == q.GenFile {
					continue
				}
				for _, dcl := range f.Decls {
					fd, ok := dcl.(*ast.FuncDecl)
					if !ok || fd.Body == nil {
						continue
					}
					name := funcKey(fd)
					ast.Inspect(fd.Body, func(n ast.Node) bool {
						bad := ""
						switch y := n.(type) {
						case *ast.CallExpr:
							if id, ok := y.Fun.(*ast.Ident); ok && id.Name == "new" && len(y.Args) == 1 {
								if isT(q.Info.TypeOf(y.Args[0])) {
									bad = "new(" + td.Name + ")"
								}
							}
						case *ast.CompositeLit:
							if isT(q.Info.TypeOf(y)) {
								bad = td.Name + "{} literal"
							}
						case *ast.AssignStmt:
							for _, l := range y.Lhs {
								if se, ok := l.(*ast.SelectorExpr); ok {
									if sel, ok := q.Info.Selections[se]; ok && sel.Kind() == types.FieldVal && isT(sel.Recv()) {
										bad = "assignment to field " + se.Sel.Name
									}
								}
							}
						case *ast.IncDecStmt:
							if se, ok := y.X.(*ast.SelectorExpr); ok {
								if sel, ok := q.Info.Selections[se]; ok && sel.Kind() == types.FieldVal && isT(sel.Recv()) {
									bad = "update of field " + se.Sel.Name
								}
							}
						case *ast.UnaryExpr:
							if y.Op.String() == "&" {
								if se, ok := y.X.(*ast.SelectorExpr); ok {
									if sel, ok := q.Info.Selections[se]; ok && sel.Kind() == types.FieldVal && isT(sel.Recv()) {
										bad = "address of field " + se.Sel.Name
									}
								}
							}
						case *ast.StarExpr:
							// *p = v on the struct itself is caught as assignment target below
						}
						if bad != "" && !(q == pk && allowed[name]) {
							problems = append(problems, fmt.Sprintf("%s: %s in %s.%s at %s (not listed in established_by)", key, bad, q.Name, name, w.Fset.Position(n.Pos())))
						}
						return true
					})
				}
			}
		}
	}
	sort.Strings(problems)
	return problems
}

func (x *Exec) tryEqual(a, b Value, st *State) (t *Term, ok bool) {
	defer func() {
		if r := recover(); r != nil {
			if _, isU := r.(unsupported); isU {
				t, ok = nil, false
				return
			}
			panic(r)
		}
	}()
	x.specMode++
	defer func() { x.specMode-- }()
	return x.valuesEqual(a, b, st), true
}
