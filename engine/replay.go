package main

// Replay of solver counterexamples against the real code: a generated in-package test is injected with
// `go test -overlay` (nothing is written into /repo), builds the inputs of the model, calls the real function
// and evaluates the contract clauses (compiled from the same contract text) on the outcome.

import (
	"bytes"
	"context"
	"encoding/json"
	"fmt"
	"go/ast"
	"go/token"
	"go/types"
	"math/big"
	"os"
	"os/exec"
	"path/filepath"
	"regexp"
	"sort"
	"strconv"
	"strings"
	"time"
)

type ReplayResult struct {
	Confirmed bool
	Detail    string
	Output    string
	TestSrc   string
	Ran       bool
}

func goLitOfModel(v string, sort Sort) string {
	v = strings.TrimSpace(v)
	switch sort {
	case SBool:
		return v
	case SInt:
		if strings.HasPrefix(v, "(-") {
			return "-" + strings.TrimSpace(strings.TrimSuffix(strings.TrimPrefix(v, "(-"), ")"))
		}
		return v
	default:
		// real: forms  n.0 | (/ a.0 b.0) | (- x) -> nearest float64
		neg := false
		if strings.HasPrefix(v, "(-") {
			neg = true
			v = strings.TrimSpace(strings.TrimSuffix(strings.TrimPrefix(v, "(-"), ")"))
		}
		r := new(big.Rat)
		ok := false
		if strings.HasPrefix(v, "(/") {
			f := strings.Fields(strings.TrimSuffix(strings.TrimPrefix(v, "(/"), ")"))
			if len(f) == 2 {
				a, ok1 := new(big.Rat).SetString(strings.TrimSuffix(f[0], ".0"))
				b, ok2 := new(big.Rat).SetString(strings.TrimSuffix(f[1], ".0"))
				if ok1 && ok2 && b.Sign() != 0 {
					r.Quo(a, b)
					ok = true
				}
			}
		} else {
			_, ok = r.SetString(v)
		}
		if !ok {
			return "0.0"
		}
		if neg {
			r.Neg(r)
		}
		f, _ := r.Float64()
		return "float64(" + strconv.FormatFloat(f, 'g', -1, 64) + ")"
	}
}

func (w *World) replaySpecSource(pk *Pkg) string {
	var sb strings.Builder
	for _, d := range pk.GenFile.Decls {
		if gd, ok := d.(*ast.GenDecl); ok && gd.Tok != token.IMPORT {
			sb.WriteString(pk.GenSrc[w.Fset.Position(gd.Pos()).Offset:w.Fset.Position(gd.End()).Offset])
			sb.WriteString("\n")
			continue
		}
		fd, ok := d.(*ast.FuncDecl)
		if !ok {
			continue
		}
		// loop invariants / hints / cut refer to locals: harmless as plain functions
		start := w.Fset.Position(fd.Pos()).Offset
		end := w.Fset.Position(fd.End()).Offset
		sb.WriteString(pk.GenSrc[start:end])
		sb.WriteString("\n")
	}
	body := sb.String()
	// imports actually used
	var imps []string
	for _, f := range pk.Files {
		for _, im := range f.Imports {
			path := strings.Trim(im.Path.Value, `"`)
			name := filepath.Base(path)
			if im.Name != nil {
				name = im.Name.Name
			}
			if regexp.MustCompile(`\b` + regexp.QuoteMeta(name) + `\.`).MatchString(body) {
				line := fmt.Sprintf("%q", path)
				if im.Name != nil {
					line = im.Name.Name + " " + line
				}
				dup := false
				for _, x := range imps {
					if x == line {
						dup = true
					}
				}
				if !dup {
					imps = append(imps, line)
				}
			}
		}
	}
	sort.Strings(imps)
	return "//go:build go1.18\n\npackage " + pk.Name + "\n\nimport (\n\t" + strings.Join(imps, "\n\t") + "\n)\n\n" + body
}

type inputTree struct {
	val  string
	sort Sort
	kids map[string]*inputTree
}

func buildInputTrees(o *Obligation) map[string]*inputTree {
	roots := map[string]*inputTree{}
	for _, iv := range o.Inputs {
		mv, ok := o.Model[iv.T.Name]
		if !ok {
			// unconstrained by the query: any value works; use zero
			switch iv.T.Sort {
			case SBool:
				mv = "false"
			case SReal:
				mv = "0.0"
			default:
				mv = "0"
			}
		}
		parts := strings.Split(iv.Path, ".")
		cur := roots
		var node *inputTree
		for i, p := range parts {
			n, ok := cur[p]
			if !ok {
				n = &inputTree{kids: map[string]*inputTree{}}
				cur[p] = n
			}
			node = n
			cur = n.kids
			_ = i
		}
		node.val = goLitOfModel(mv, iv.T.Sort)
		node.sort = iv.T.Sort
	}
	return roots
}

func goValueOf(t types.Type, n *inputTree, qual types.Qualifier) string {
	if n == nil {
		return zeroLit(t, qual)
	}
	switch u := t.Underlying().(type) {
	case *types.Basic:
		if n.val != "" {
			if u.Info()&types.IsFloat != 0 && n.sort != SReal {
				return "float64(" + n.val + ")"
			}
			return n.val
		}
		return zeroLit(t, qual)
	case *types.Pointer:
		if k, ok := n.kids["nil"]; ok && k.val == "true" {
			return "nil"
		}
		if nm, ok := u.Elem().(*types.Named); ok {
			if st, ok := nm.Underlying().(*types.Struct); ok {
				var fs []string
				for i := 0; i < st.NumFields(); i++ {
					f := st.Field(i)
					if k, ok := n.kids[f.Name()]; ok {
						fs = append(fs, f.Name()+": "+goValueOf(f.Type(), k, qual))
					}
				}
				return "&" + types.TypeString(nm, qual) + "{" + strings.Join(fs, ", ") + "}"
			}
		}
	}
	return zeroLit(t, qual)
}

func zeroLit(t types.Type, qual types.Qualifier) string {
	switch u := t.Underlying().(type) {
	case *types.Basic:
		switch {
		case u.Info()&types.IsNumeric != 0:
			return "0"
		case u.Info()&types.IsBoolean != 0:
			return "false"
		case u.Info()&types.IsString != 0:
			return `""`
		}
	}
	return "nil"
}

func (w *World) replay(u *UnitResult, o *Obligation, outPath string) *ReplayResult {
	rr := &ReplayResult{}
	d := u.Decl
	pk := w.Pkgs[d.Pkg]
	qual := func(p *types.Package) string {
		if p == pk.Types {
			return ""
		}
		return p.Name()
	}
	trees := buildInputTrees(o)
	var tb strings.Builder
	fmt.Fprintf(&tb, "package %s\n\nimport (\n\t\"fmt\"\n\t\"testing\"\n)\n\n", pk.Name)
	fmt.Fprintf(&tb, "// replay of obligation %s\n// clause: %s\nfunc TestVerifReplay(t *testing.T) {\n", o.Name, o.Clause)
	tb.WriteString("\tconfirmed := false\n\tsay := func(f string, a ...interface{}) { fmt.Printf(\"REPLAY \"+f+\"\\n\", a...) }\n")
	switch d.Kind {
	case "func":
		fd := pk.Funcs[d.Name]
		obj := pk.Info.Defs[fd.Name].(*types.Func)
		sig := obj.Type().(*types.Signature)
		var argNames, clauseArgs []string
		recvName := ""
		if sig.Recv() != nil {
			recvName = sig.Recv().Name()
			if recvName == "" || recvName == "_" {
				recvName = "recv__"
			}
			fmt.Fprintf(&tb, "\t%s := %s\n", recvName, goValueOf(sig.Recv().Type(), trees[sig.Recv().Name()], qual))
			if sig.Recv().Name() != "" && sig.Recv().Name() != "_" {
				clauseArgs = append(clauseArgs, recvName)
			}
		}
		for i := 0; i < sig.Params().Len(); i++ {
			p := sig.Params().At(i)
			n := p.Name()
			if n == "" || n == "_" {
				n = fmt.Sprintf("arg%d__", i)
			} else {
				clauseArgs = append(clauseArgs, n)
			}
			fmt.Fprintf(&tb, "\tvar %s %s = %s\n\t_ = %s\n", n, types.TypeString(p.Type(), qual), goValueOf(p.Type(), trees[p.Name()], qual), n)
			argNames = append(argNames, n)
		}
		ca := strings.Join(clauseArgs, ", ")
		fmt.Fprintf(&tb, "\tsay(\"inputs: %s\", %s)\n", strings.Repeat("%+v ", len(clauseArgs)), derefList(clauseArgs, sig))
		// preconditions
		tb.WriteString("\tpre := true\n\tmayPanic := false\n\thasPanicsIff := false\n")
		for _, c := range d.Clauses {
			switch c.Kind {
			case "requires":
				fmt.Fprintf(&tb, "\tif !%s(%s) { pre = false; say(\"precondition false: %%s\", %q) }\n", c.FnName, ca, c.Text)
			case "panics_iff":
				fmt.Fprintf(&tb, "\thasPanicsIff = true\n\tif %s(%s) { mayPanic = true }\n", c.FnName, ca)
			}
		}
		tb.WriteString("\t_ = hasPanicsIff\n")
		// the inputs must also satisfy the type invariants the proof assumed for them (a model the solver invented
		// for an object the engine only knows by its invariant is not a witness unless it is a well-formed object)
		invCheck := func(name string, t types.Type) {
			if p, ok := t.(*types.Pointer); ok {
				t = p.Elem()
			}
			n, ok := t.(*types.Named)
			if !ok || n.Obj().Pkg() == nil {
				return
			}
			td := w.TypeInvs[n.Obj().Pkg().Name()+"."+n.Obj().Name()]
			if td == nil || td.Pkg != d.Pkg {
				return
			}
			for _, c := range td.Clauses {
				if c.Kind == "invariant" && c.FnName != "" {
					fmt.Fprintf(&tb, "\tfunc() {\n\t\tdefer func() { if r := recover(); r != nil { pre = false; say(\"input %s is not a well-formed %s (invariant cannot be evaluated: %%v)\", r) } }()\n\t\tif %s != nil && !%s(%s) { pre = false; say(\"input %s does not satisfy the type invariant of %s\") }\n\t}()\n", name, n.Obj().Name(), name, c.FnName, name, name, n.Obj().Name())
				}
			}
		}
		if sig.Recv() != nil {
			invCheck(recvName, sig.Recv().Type())
		}
		for i := 0; i < sig.Params().Len(); i++ {
			if pn := sig.Params().At(i).Name(); pn != "" && pn != "_" {
				invCheck(pn, sig.Params().At(i).Type())
			}
		}
		call := d.Name + "(" + strings.Join(argNames, ", ") + ")"
		if sig.Recv() != nil {
			call = recvName + "." + fd.Name.Name + "(" + strings.Join(argNames, ", ") + ")"
		} else {
			call = fd.Name.Name + "(" + strings.Join(argNames, ", ") + ")"
		}
		var resNames []string
		for i := 0; i < sig.Results().Len(); i++ {
			rn := "result"
			if sig.Results().Len() > 1 {
				rn = fmt.Sprintf("result%d", i+1)
			}
			resNames = append(resNames, rn)
			fmt.Fprintf(&tb, "\tvar %s %s\n\t_ = %s\n", rn, types.TypeString(sig.Results().At(i).Type(), qual), rn)
		}
		tb.WriteString("\tpanicked := false\n\tvar pv interface{}\n\tfunc() {\n\t\tdefer func() { if r := recover(); r != nil { panicked = true; pv = r } }()\n")
		if len(resNames) > 0 {
			fmt.Fprintf(&tb, "\t\t%s = %s\n", strings.Join(resNames, ", "), call)
		} else {
			fmt.Fprintf(&tb, "\t\t%s\n", call)
		}
		tb.WriteString("\t}()\n")
		tb.WriteString("\tif !pre { say(\"model does not satisfy the precondition on the real code: not a witness\") } else if panicked && !mayPanic {\n\t\tconfirmed = true; say(\"CONFIRMED: the real function panics on a valid input: %v\", pv)\n\t} else if !panicked && mayPanic {\n\t\tconfirmed = true; say(\"CONFIRMED: the real function returns normally although the contract says it must panic\")\n\t} else if !panicked {\n")
		post := append([]string{}, clauseArgs...)
		ghostNames := map[string]bool{}
		for _, c := range d.Clauses {
			if c.Kind == "ghost" {
				z := "0"
				if c.SplitHi == "bool" {
					z = "false"
				}
				post = append(post, c.SplitHi+"("+z+")")
				ghostNames[c.SplitLo] = true
			}
		}
		post = append(post, resNames...)
		for _, c := range d.Clauses {
			if c.Kind == "ensures" && !mentionsAny(c.Text, ghostNames) {
				fmt.Fprintf(&tb, "\t\tfunc() {\n\t\t\tdefer func() { if r := recover(); r != nil { confirmed = true; say(\"CONFIRMED: postcondition cannot be evaluated on the result (%%v): %%s\", r, %q) } }()\n\t\t\tif !%s(%s) { confirmed = true; say(\"CONFIRMED: postcondition false on the real result: %%s\", %q) }\n\t\t}()\n", c.Text, c.FnName, strings.Join(post, ", "), c.Text)
			}
		}
		if len(resNames) == 1 {
			if p, ok := sig.Results().At(0).Type().(*types.Pointer); ok {
				if n, ok := p.Elem().(*types.Named); ok {
					if !d.nullable() {
						tb.WriteString("\t\tif result == nil { confirmed = true; say(\"CONFIRMED: nil result\") }\n")
					}
					if td := w.TypeInvs[n.Obj().Pkg().Name()+"."+n.Obj().Name()]; td != nil && td.Pkg == d.Pkg {
						for _, c := range td.Clauses {
							if c.Kind == "invariant" && c.FnName != "" {
								fmt.Fprintf(&tb, "\t\tif result != nil && !%s(result) { confirmed = true; say(\"CONFIRMED: type invariant false on the real result: %%s\", %q) }\n", c.FnName, c.Text)
							}
						}
					}
				}
			}
		}
		if len(resNames) > 0 {
			fmt.Fprintf(&tb, "\t\tsay(\"result: %s\", %s)\n", strings.Repeat("%+v ", len(resNames)), derefResults(resNames, sig))
		}
		tb.WriteString("\t}\n")
	case "lemma":
		names, typs := d.paramNamesTypes()
		for i, n := range names {
			tr := trees[n]
			v := "0"
			if typs[i] == "bool" {
				v = "false"
			}
			if tr != nil && tr.val != "" {
				v = tr.val
			}
			fmt.Fprintf(&tb, "\tvar %s %s = %s\n", n, typs[i], v)
		}
		args := strings.Join(names, ", ")
		fmt.Fprintf(&tb, "\tsay(\"inputs: %s\", %s)\n", strings.Repeat("%v ", len(names)), orNil(args))
		fmt.Fprintf(&tb, "\tif %s__req(%s) && !%s__ens(%s) { confirmed = true; say(\"CONFIRMED: lemma false for these values\") }\n", d.Name, args, d.Name, args)
	case "ghost":
		fd := pk.Funcs[d.Name]
		obj := pk.Info.Defs[fd.Name].(*types.Func)
		sig := obj.Type().(*types.Signature)
		var argNames []string
		for i := 0; i < sig.Params().Len(); i++ {
			p := sig.Params().At(i)
			fmt.Fprintf(&tb, "\tvar %s %s = %s\n", p.Name(), types.TypeString(p.Type(), qual), goValueOf(p.Type(), trees[p.Name()], qual))
			argNames = append(argNames, p.Name())
		}
		fmt.Fprintf(&tb, "\tsay(\"inputs: %s\", %s)\n", strings.Repeat("%+v ", len(argNames)), derefList(argNames, sig))
		tb.WriteString("\tpre := true\n")
		for _, c := range d.Clauses {
			if c.Kind == "requires" {
				fmt.Fprintf(&tb, "\tif !%s(%s) { pre = false; say(\"precondition false: %%s\", %q) }\n", c.FnName, strings.Join(argNames, ", "), c.Text)
			}
		}
		fmt.Fprintf(&tb, "\tif pre {\n\t\tfunc() {\n\t\t\tdefer func() { if r := recover(); r != nil { confirmed = true; say(\"CONFIRMED: ghost lemma %s fails on the real code: %%v\", r) } }()\n\t\t\t%s(%s)\n\t\t}()\n\t}\n", d.Name, d.Name, strings.Join(argNames, ", "))
	default:
		rr.Detail = "no replay for this unit kind"
		return rr
	}
	tb.WriteString("\tif confirmed { fmt.Println(\"REPLAY-CONFIRMED\") } else { fmt.Println(\"REPLAY-NOT-CONFIRMED\") }\n}\n")
	rr.TestSrc = tb.String()
	// run
	tmp, err := os.MkdirTemp("", "govc-replay-")
	if err != nil {
		rr.Detail = err.Error()
		return rr
	}
	defer os.RemoveAll(tmp)
	specPath := filepath.Join(tmp, "zz_spec_replay.go")
	testPath := filepath.Join(tmp, "zz_replay_test.go")
	os.WriteFile(specPath, []byte(w.replaySpecSource(pk)), 0644)
	os.WriteFile(testPath, []byte(rr.TestSrc), 0644)
	ov := map[string]map[string]string{"Replace": {
		filepath.Join(pk.Dir, "zz_spec_replay_verif.go"): specPath,
		filepath.Join(pk.Dir, "zz_replay_verif_test.go"): testPath,
	}}
	ovb, _ := json.Marshal(ov)
	ovPath := filepath.Join(tmp, "overlay.json")
	os.WriteFile(ovPath, ovb, 0644)
	ctx, cancel := context.WithTimeout(context.Background(), 120*time.Second)
	defer cancel()
	cmd := exec.CommandContext(ctx, "go", "test", "-tags", "verif", "-overlay", ovPath, "-v", "-vet=off", "-count=1", "-timeout", "60s", "-run", "^TestVerifReplay$", "./"+filepath.Base(pk.Dir))
	cmd.Dir = repoDir
	cmd.Env = append(os.Environ(), "GOFLAGS=-mod=mod", "GOPROXY=off", "GOSUMDB=off", "GOTOOLCHAIN=local")
	var out bytes.Buffer
	cmd.Stdout = &out
	cmd.Stderr = &out
	cmd.Run()
	rr.Output = out.String()
	rr.Ran = strings.Contains(rr.Output, "REPLAY-")
	rr.Confirmed = strings.Contains(rr.Output, "REPLAY-CONFIRMED")
	for _, l := range strings.Split(rr.Output, "\n") {
		if strings.HasPrefix(l, "REPLAY CONFIRMED") || strings.HasPrefix(l, "REPLAY inputs") || strings.HasPrefix(l, "REPLAY result") {
			rr.Detail += strings.TrimPrefix(l, "REPLAY ") + "; "
		}
	}
	return rr
}

func orNil(s string) string {
	if s == "" {
		return "nil"
	}
	return s
}

func derefList(names []string, sig *types.Signature) string {
	var out []string
	idx := 0
	isPtr := func(t types.Type) bool { _, ok := t.Underlying().(*types.Pointer); return ok }
	if sig.Recv() != nil && sig.Recv().Name() != "" && sig.Recv().Name() != "_" {
		if isPtr(sig.Recv().Type()) {
			out = append(out, "*"+names[idx])
		} else {
			out = append(out, names[idx])
		}
		idx++
	}
	for i := 0; i < sig.Params().Len(); i++ {
		p := sig.Params().At(i)
		if p.Name() == "" || p.Name() == "_" {
			continue
		}
		if isPtr(p.Type()) {
			out = append(out, "*"+names[idx])
		} else {
			out = append(out, names[idx])
		}
		idx++
	}
	return orNil(strings.Join(out, ", "))
}

func derefResults(names []string, sig *types.Signature) string {
	var out []string
	for i, n := range names {
		if _, ok := sig.Results().At(i).Type().Underlying().(*types.Pointer); ok {
			out = append(out, fmt.Sprintf("func() interface{} { if %s == nil { return nil }; return *%s }()", n, n))
		} else {
			out = append(out, n)
		}
	}
	return strings.Join(out, ", ")
}

func mentionsAny(text string, names map[string]bool) bool {
	for n := range names {
		if regexp.MustCompile(`\b` + regexp.QuoteMeta(n) + `\b`).MatchString(text) {
			return true
		}
	}
	return false
}
