package main

import (
	"fmt"
	"golang.org/x/tools/go/packages"
)

func main() {
	cfg := &packages.Config{Mode: packages.NeedName | packages.NeedFiles | packages.NeedSyntax | packages.NeedTypes | packages.NeedTypesInfo | packages.NeedImports | packages.NeedDeps, Dir: "/repo", BuildFlags: []string{"-tags=verif"}}
	pkgs, err := packages.Load(cfg, "./...")
	fmt.Println(len(pkgs), err)
	for _, p := range pkgs {
		fmt.Println(p.PkgPath, len(p.Syntax), p.Errors)
	}
}
