package main

import (
	"encoding/json"
	"flag"
	"fmt"
	"os"
	"os/exec"
	"path/filepath"
	"sort"
	"strings"
	"sync"
	"time"
)

var verifDir = "/verif"

func main() {
	if len(os.Args) < 2 {
		fmt.Fprintln(os.Stderr, "usage: govc check|list|dump ...")
		os.Exit(2)
	}
	if d := os.Getenv("VERIF_REPO"); d != "" {
		repoDir = d
	}
	if d := os.Getenv("VERIF_DIR"); d != "" {
		verifDir = d
	}
	switch os.Args[1] {
	case "check":
		os.Exit(cmdCheck(os.Args[2:]))
	case "survey":
		os.Exit(cmdSurvey(os.Args[2:]))
	case "replay":
		os.Exit(cmdReplay(os.Args[2:]))
	case "list":
		w, err := loadWorld()
		if err != nil {
			fmt.Fprintln(os.Stderr, err)
			os.Exit(2)
		}
		for _, d := range w.AllDecls {
			fmt.Printf("%-6s %-50s %v\n", d.Kind, w.unitName(d), d.Tags)
		}
		for _, p := range w.Problems {
			fmt.Println("PROBLEM:", p)
		}
	case "gen":
		w, err := loadWorld()
		if err != nil {
			fmt.Fprintln(os.Stderr, err)
			os.Exit(2)
		}
		for _, pk := range w.Order {
			if len(pk.Decls) > 0 {
				fmt.Printf("// ---- %s\n%s\n", pk.Path, pk.GenSrc)
			}
		}
	default:
		fmt.Fprintln(os.Stderr, "unknown command")
		os.Exit(2)
	}
}

func cmdCheck(args []string) int {
	fs := flag.NewFlagSet("check", flag.ExitOnError)
	prop := fs.String("prop", "", "property id")
	tier := fs.String("tier", "quick", "quick|thorough")
	only := fs.String("only", "", "restrict to units whose name contains this")
	verbose := fs.Bool("v", false, "verbose")
	keep := fs.Bool("keep", false, "keep smt files")
	writeBase := fs.Bool("write-baseline", false, "record the units that verify completely in baseline/decided_<prop>.json (run on the unchanged tree, no -only)")
	fs.Parse(args)
	start := time.Now()
	w, err := loadWorld()
	if err != nil {
		fmt.Fprintln(os.Stderr, "load error:", err)
		return 2
	}
	for _, p := range w.Problems {
		fmt.Println("CONTRACT-PROBLEM:", p)
	}
	timeout := 30
	w.UnitBudget = 60
	if *tier == "thorough" {
		timeout = 120
		w.UnitBudget = 600
	}
	run := &Run{w: w, prop: *prop, tier: *tier, timeout: timeout, verbose: *verbose, start: start, only: *only, keep: *keep}
	rc := run.execute()
	if *writeBase && *only == "" {
		var names []string
		for _, u := range run.units {
			if u.Undecided != "" {
				continue
			}
			ok := true
			for _, o := range u.Obls {
				if o.Status != "discharged" {
					ok = false
				}
			}
			if ok {
				names = append(names, u.Name)
			}
		}
		sort.Strings(names)
		b, _ := json.MarshalIndent(names, "", " ")
		os.MkdirAll(filepath.Join(verifDir, "baseline"), 0755)
		os.WriteFile(filepath.Join(verifDir, "baseline", "decided_"+*prop+".json"), b, 0644)
		fmt.Printf("baseline: %d decided units recorded for %s\n", len(names), *prop)
	}
	return rc
}

type Run struct {
	w             *World
	prop          string
	tier          string
	timeout       int
	verbose       bool
	keep          bool
	only          string
	start         time.Time
	units         []*UnitResult
	survey        bool
	onlySet       map[string]bool
	unclaimed     []string
	canarySat     int
	canaryUnknown int
	vacuous       []string
	scanProblems  []string
}

func (r *Run) selectDecls() []*Decl {
	var sel []*Decl
	seen := map[*Decl]bool{}
	for _, d := range r.w.AllDecls {
		if d.Kind == "spec" || d.Kind == "type" || d.Kind == "sweep" || d.Kind == "gocode" {
			continue
		}
		if r.prop != "" && !hasTag(d.Tags, r.prop) {
			continue
		}
		if r.onlySet != nil {
			if !r.onlySet[r.w.unitName(d)] {
				continue
			}
		} else if r.only != "" && !strings.Contains(r.w.unitName(d), r.only) {
			continue
		}
		if d.Sweep && !r.survey {
			if led := sweepLedger(r.prop); led != nil && !led[r.w.unitName(d)] {
				r.unclaimed = append(r.unclaimed, r.w.unitName(d))
				continue
			}
		}
		if !seen[d] {
			seen[d] = true
			sel = append(sel, d)
		}
	}
	return sel
}

func (r *Run) execute() int {
	w := r.w
	sel := r.selectDecls()
	if len(sel) == 0 {
		fmt.Printf("no contracts tagged %s\n", r.prop)
		return 2
	}
	done := map[*Decl]bool{}
	queue := append([]*Decl{}, sel...)
	for len(queue) > 0 {
		d := queue[0]
		queue = queue[1:]
		if done[d] {
			continue
		}
		done[d] = true
		if d.Trusted {
			r.units = append(r.units, &UnitResult{Name: w.unitName(d), Kind: d.Kind, Decl: d, Undecided: "trusted"})
			continue
		}
		t0 := time.Now()
		u := w.verifyDecl(d)
		if r.verbose {
			fmt.Printf("symex %-50s %.2fs obligations=%d\n", u.Name, time.Since(t0).Seconds(), len(u.Obls))
		}
		r.units = append(r.units, u)
		if r.only == "" {
			for _, c := range u.Callees {
				if cd, ok := w.Contracts[c]; ok && !done[cd] {
					queue = append(queue, cd)
				}
			}
			for _, l := range u.Lemmas {
				for _, ld := range w.Lemmas {
					if ld.Name == l && !done[ld] {
						queue = append(queue, ld)
					}
				}
			}
		}
	}
	// discharge
	dir, _ := os.MkdirTemp("", "govc-smt-")
	if r.keep {
		dir = filepath.Join(verifDir, ".cache", "smt")
		os.MkdirAll(dir, 0755)
	} else {
		defer os.RemoveAll(dir)
	}
	dis := &Discharger{w: w, dir: dir, timeout: r.timeout, sem: make(chan struct{}, 24), survey: r.survey}
	if !r.survey {
		budget := 22 * time.Minute
		if r.tier == "thorough" {
			budget = 60 * time.Minute
		}
		dis.deadline = time.Now().Add(budget)
	}
	var wg sync.WaitGroup
	for _, u := range r.units {
		for _, o := range u.Obls {
			if sp := splitOf[u.Decl]; len(sp) > 0 {
				o.Splits = sp
				o.Split = sp[0]
			}
			if len(u.Decl.Reveal) > 0 {
				o.Reveal = map[string]bool{}
				for _, n := range u.Decl.Reveal {
					o.Reveal[n] = true
				}
			}
			o := o
			wg.Add(1)
			go func() {
				defer wg.Done()
				dis.discharge(o)
			}()
		}
	}
	wg.Wait()
	if r.survey {
		return 0
	}
	// second chance: an obligation left `unknown` (a timeout, possibly a load artefact) is asked again on its own with
	// twice the time before it is reported; `sat` answers are never retried
	nUnknown := 0
	for _, u := range r.units {
		for _, o := range u.Obls {
			if o.Status == "unknown" && o.Batch == nil {
				nUnknown++
			}
		}
	}
	for _, u := range r.units {
		for _, o := range u.Obls {
			// (only when few are left and time remains: many unknowns mean a real change, not load)
			if o.Status == "unknown" && o.Batch == nil && nUnknown <= 4 && time.Since(r.start) < 12*time.Minute {
				d2 := &Discharger{w: w, dir: dir, timeout: 2 * r.timeout, sem: make(chan struct{}, 24), deadline: time.Now().Add(4 * time.Minute)}
				clause := o.Clause
				d2.discharge(o)
				if o.Status == "discharged" {
					o.Clause = clause
					o.Solver += " (second attempt)"
				}
			}
		}
	}
	// vacuity canaries: the hypotheses of the last obligation of every unit must be satisfiable
	type canary struct {
		u *UnitResult
		o *Obligation
	}
	var cans []*canary
	for _, u := range r.units {
		// two canaries per unit: the hypotheses of its first obligation (entry: preconditions, invariants, lemma
		// instances) and of its last postcondition-like obligation (the normal-return state). The last obligation
		// of any kind is not used: a safety obligation on a path the engine did not prune is legitimately unreachable.
		var last, first *Obligation
		for _, o := range u.Obls {
			if o.Batch == nil && len(o.Hyps) > 0 {
				if first == nil {
					first = o
				}
				switch o.Kind {
				case "post", "assert", "derived", "typeinv":
					last = o
				}
			}
		}
		if last == nil {
			last = first
			first = nil
		}
		allOK := true
		for _, o := range u.Obls {
			if o.Status != "discharged" {
				allOK = false // a failed assert is assumed afterwards: its hypotheses are contradictory by construction
			}
		}
		if last == nil || !allOK {
			continue
		}
		for _, src := range []*Obligation{first, last} {
			if src == nil {
				continue
			}
			c := &canary{u, &Obligation{Name: u.Name + "/canary", Kind: "canary", Fn: u.Name, Hyps: src.Hyps, Goal: tFalse, Reveal: src.Reveal}}
			cans = append(cans, c)
			wg.Add(1)
			go func() {
				defer wg.Done()
				dis.sem <- struct{}{}
				defer func() { <-dis.sem }()
				rr := dis.run1(c.o.Name, c.o.Hyps, c.o.Goal, nil, 5, c.o.Reveal)
				c.o.Status = rr.status
			}()
		}
	}
	wg.Wait()
	for _, c := range cans {
		switch c.o.Status {
		case "sat":
			r.canarySat++
		case "unsat":
			dup := false
			for _, v := range r.vacuous {
				if v == c.u.Name {
					dup = true
				}
			}
			if !dup {
				r.vacuous = append(r.vacuous, c.u.Name)
			}
		default:
			r.canaryUnknown++
		}
	}
	r.scanProblems = append(w.checkEstablishedBy(), w.checkMemoFields()...)
	return r.report()
}

// survey: run the sweep units of a property with short timeouts and record which of them verify completely.
// The result (/verif/baseline/sweep_<prop>.json) is the committed ledger: checks claim exactly those units.
func cmdSurvey(args []string) int {
	fs := flag.NewFlagSet("survey", flag.ExitOnError)
	prop := fs.String("prop", "", "property id")
	only := fs.String("only", "", "restrict to units whose name contains this")
	to := fs.Int("timeout", 8, "solver timeout per stage")
	reopen := fs.Bool("open", false, "re-survey only the units not yet verified in the existing ledger")
	fs.Parse(args)
	w, err := loadWorld()
	if err != nil {
		fmt.Fprintln(os.Stderr, "load error:", err)
		return 2
	}
	w.UnitBudget = 30
	run := &Run{w: w, prop: *prop, tier: "quick", timeout: *to, start: time.Now(), only: *only, survey: true}
	if *reopen {
		run.onlySet = map[string]bool{}
		var old []struct {
			Unit   string `json:"unit"`
			Status string `json:"status"`
		}
		if ob, err := os.ReadFile(filepath.Join(verifDir, "baseline", "sweep_"+*prop+".json")); err == nil {
			json.Unmarshal(ob, &old)
		}
		for _, e := range old {
			if e.Status != "verified" {
				run.onlySet[e.Unit] = true
			}
		}
		if *only == "" {
			*only = "(open units)"
		}
	}
	run.execute()
	type entry struct {
		Unit        string `json:"unit"`
		Obligations int    `json:"obligations"`
		Status      string `json:"status"`
		Reason      string `json:"reason,omitempty"`
	}
	var out []entry
	pass := 0
	for _, u := range run.units {
		if !u.Decl.Sweep {
			continue
		}
		e := entry{Unit: u.Name, Obligations: len(u.Obls), Status: "verified"}
		if u.Undecided != "" {
			e.Status, e.Reason = "undecided", u.Undecided
		} else {
			for _, o := range u.Obls {
				if o.Status != "discharged" {
					e.Status = "open"
					e.Reason = o.Name + ": " + o.Status + " (" + o.Clause + ")"
					break
				}
			}
		}
		if e.Status == "verified" {
			// totality cannot rest on a callee that is only named, not specified (a trusted contract without
			// postconditions says nothing about the callee returning at all)
			for _, c := range u.Callees {
				if cd := w.Contracts[c]; cd != nil && cd.Trusted {
					hasEns := false
					for _, cl := range cd.Clauses {
						if cl.Kind == "ensures" {
							hasEns = true
						}
					}
					if !hasEns {
						e.Status, e.Reason = "undecided", "calls "+c+", which is outside the verified subset (trusted, unspecified)"
					}
				}
			}
		}
		if e.Status == "verified" {
			pass++
		}
		out = append(out, e)
	}
	os.MkdirAll(filepath.Join(verifDir, "baseline"), 0755)
	if *only != "" {
		// partial survey: merge into the existing ledger
		var old []entry
		if ob, err := os.ReadFile(filepath.Join(verifDir, "baseline", "sweep_"+*prop+".json")); err == nil {
			json.Unmarshal(ob, &old)
		}
		fresh := map[string]entry{}
		for _, e := range out {
			fresh[e.Unit] = e
		}
		var merged []entry
		for _, e := range old {
			if n, ok := fresh[e.Unit]; ok {
				merged = append(merged, n)
				delete(fresh, e.Unit)
			} else {
				merged = append(merged, e)
			}
		}
		for _, e := range out {
			if _, ok := fresh[e.Unit]; ok {
				merged = append(merged, e)
			}
		}
		out = merged
	}
	b, _ := json.MarshalIndent(out, "", " ")
	os.WriteFile(filepath.Join(verifDir, "baseline", "sweep_"+*prop+".json"), b, 0644)
	fmt.Printf("survey %s: %d of %d sweep units verified\n", *prop, pass, len(out))
	return 0
}

// sweepLedger: units claimed for a property (nil if there is no ledger)
func sweepLedger(prop string) map[string]bool {
	b, err := os.ReadFile(filepath.Join(verifDir, "baseline", "sweep_"+prop+".json"))
	if err != nil {
		return nil
	}
	var es []struct {
		Unit   string `json:"unit"`
		Status string `json:"status"`
	}
	if json.Unmarshal(b, &es) != nil {
		return nil
	}
	m := map[string]bool{}
	for _, e := range es {
		if e.Status == "verified" {
			m[e.Unit] = true
		}
	}
	return m
}

// replay: re-run a recorded violation against /repo's current tree.
//   - a record with a test (a counterexample that was confirmed or tried): the recorded test is compiled together with
//     the spec file regenerated from the current contracts and run on the real code;
//   - a stand-in record: the stand-in is executed again;
//   - a record without a failing input: the named obligation's unit is verified again.
//
// Exit 1 + VIOLATION line when the violation is still there, 0 when it is gone, 2 on a machinery error.
func cmdReplay(args []string) int {
	fs := flag.NewFlagSet("replay", flag.ExitOnError)
	prop := fs.String("prop", "", "property id")
	file := fs.String("file", "", "replay file")
	fs.Parse(args)
	b, err := os.ReadFile(*file)
	if err != nil {
		fmt.Println("cannot read replay file:", err)
		return 2
	}
	var rec map[string]interface{}
	if err := json.Unmarshal(b, &rec); err != nil {
		fmt.Println("bad replay file:", err)
		return 2
	}
	str := func(k string) string { s, _ := rec[k].(string); return s }
	if sn := str("standin"); sn != "" {
		fmt.Printf("replay: executing stand-in %s again\n", sn)
		return cmdCheck([]string{"-prop", *prop, "-tier", "quick"})
	}
	ob := str("obligation")
	if ob == "" {
		fmt.Println("replay file names no obligation")
		return 2
	}
	unit := ob
	if i := strings.LastIndex(ob, "/"); i >= 0 {
		unit = ob[:i]
	}
	if test := str("replay_test"); test != "" {
		w, err := loadWorld()
		if err != nil {
			fmt.Fprintln(os.Stderr, err)
			return 2
		}
		var pk *Pkg
		for _, d := range w.AllDecls {
			if w.unitName(d) == unit {
				pk = w.Pkgs[d.Pkg]
			}
		}
		if pk == nil {
			fmt.Println("unit not found:", unit)
			return 2
		}
		tmp, err := os.MkdirTemp("", "govc-replay-")
		if err != nil {
			return 2
		}
		defer os.RemoveAll(tmp)
		specPath := filepath.Join(tmp, "zz_spec_replay.go")
		testPath := filepath.Join(tmp, "zz_replay_test.go")
		os.WriteFile(specPath, []byte(w.replaySpecSource(pk)), 0644)
		os.WriteFile(testPath, []byte(test), 0644)
		ovb, _ := json.Marshal(map[string]map[string]string{"Replace": {
			filepath.Join(pk.Dir, "zz_spec_replay_verif.go"): specPath,
			filepath.Join(pk.Dir, "zz_replay_verif_test.go"): testPath,
		}})
		ovPath := filepath.Join(tmp, "overlay.json")
		os.WriteFile(ovPath, ovb, 0644)
		cmd := exec.Command("go", "test", "-tags", "verif", "-overlay", ovPath, "-v", "-vet=off", "-count=1", "-timeout", "60s", "-run", "^TestVerifReplay$", "./"+filepath.Base(pk.Dir))
		cmd.Dir = repoDir
		cmd.Env = append(os.Environ(), "GOFLAGS=-mod=mod", "GOPROXY=off", "GOSUMDB=off", "GOTOOLCHAIN=local")
		out, _ := cmd.CombinedOutput()
		for _, l := range strings.Split(string(out), "\n") {
			if strings.HasPrefix(l, "REPLAY") {
				fmt.Println(l)
			}
		}
		if strings.Contains(string(out), "REPLAY-CONFIRMED") {
			fmt.Printf("VIOLATION property=%s replay=%s\n", *prop, *file)
			return 1
		}
		if strings.Contains(string(out), "REPLAY-NOT-CONFIRMED") {
			fmt.Println("the recorded input no longer violates the contract on the current tree")
			return 0
		}
		// the recorded test names clause functions of the contract file as it was then; after a contract edit it no
		// longer compiles: verify the unit again instead (a new counterexample, if any, is replayed by that run)
		fmt.Println("replay: the recorded test does not build against the current contracts; verifying the unit again")
	}
	fmt.Printf("replay: verifying unit %s again\n", unit)
	return cmdCheck([]string{"-prop", *prop, "-tier", "quick", "-only", unit})
}
