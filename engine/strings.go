package main

import (
	"fmt"
	"go/ast"
	"go/types"
	"math/big"
	"strconv"
	"strings"
	"sync"
	"unicode/utf8"
)

const altCap = 20000

func strConcat(a, b *StrV) *StrV {
	if a.Opaque || b.Opaque {
		return &StrV{Opaque: true, Tag: "concat"}
	}
	if a.Cases != nil || b.Cases != nil {
		return &StrV{Opaque: true, Tag: "concat-cases"}
	}
	if a.Fmt == nil && b.Fmt == nil {
		if len(a.Alts)*len(b.Alts) > altCap {
			return &StrV{Opaque: true, Tag: "concat-cap"}
		}
		var out []StrAlt
		for _, x := range a.Alts {
			for _, y := range b.Alts {
				c := mkAnd(x.Cond, y.Cond)
				if c.isFalse() {
					continue
				}
				out = append(out, StrAlt{c, x.S + y.S})
			}
		}
		return normalizeAlts(out)
	}
	if a.Cases != nil || b.Cases != nil {
		return &StrV{Opaque: true, Tag: "concat-cases"}
	}
	pa, ok1 := toFmtParts(a)
	pb, ok2 := toFmtParts(b)
	if !ok1 && ok2 && a.Fmt == nil && len(a.Alts) <= 200 {
		// finite choice followed by a formatted string: one guarded pattern per alternative
		r := &StrV{}
		for _, alt := range a.Alts {
			r.Cases = append(r.Cases, StrCase{alt.Cond, joinParts(append([]FmtPart{{Lit: alt.S}}, pb...))})
		}
		return r
	}
	if ok1 && !ok2 && b.Fmt == nil && len(b.Alts) <= 200 {
		r := &StrV{}
		for _, alt := range b.Alts {
			r.Cases = append(r.Cases, StrCase{alt.Cond, joinParts(append(append([]FmtPart{}, pa...), FmtPart{Lit: alt.S}))})
		}
		return r
	}
	if !ok1 || !ok2 {
		return &StrV{Opaque: true, Tag: "concat-fmt"}
	}
	return &StrV{Fmt: joinParts(append(append([]FmtPart{}, pa...), pb...))}
}

func toFmtParts(s *StrV) ([]FmtPart, bool) {
	if s.Fmt != nil {
		return s.Fmt, true
	}
	if l, ok := s.isLit(); ok {
		if l == "" {
			return []FmtPart{}, true
		}
		return []FmtPart{{Lit: l}}, true
	}
	return nil, false
}

func joinParts(ps []FmtPart) []FmtPart {
	var out []FmtPart
	for _, p := range ps {
		if p.Num == nil && len(out) > 0 && out[len(out)-1].Num == nil {
			out[len(out)-1].Lit += p.Lit
			continue
		}
		if p.Num == nil && p.Lit == "" {
			continue
		}
		out = append(out, p)
	}
	if out == nil {
		out = []FmtPart{}
	}
	return out
}

func pow10(w int) *Term {
	return mkBig(new(big.Int).Exp(big.NewInt(10), big.NewInt(int64(w)), nil))
}

// alignLiteral re-expresses a literal string in the shape of fixed-width parts.
func alignLiteral(lit string, shape []FmtPart) ([]FmtPart, bool) {
	var out []FmtPart
	rest := lit
	for _, p := range shape {
		if p.Num == nil {
			if !strings.HasPrefix(rest, p.Lit) {
				return nil, false
			}
			out = append(out, p)
			rest = rest[len(p.Lit):]
			continue
		}
		if p.Width == 0 || len(rest) < p.Width {
			return nil, false
		}
		d := rest[:p.Width]
		for _, c := range d {
			if c < '0' || c > '9' {
				return nil, false
			}
		}
		n, _ := strconv.ParseInt(d, 10, 64)
		out = append(out, FmtPart{Num: mkInt(n), Width: p.Width})
		rest = rest[p.Width:]
	}
	if rest != "" {
		return nil, false
	}
	return out, true
}

func sameShape(a, b []FmtPart) bool {
	if len(a) != len(b) {
		return false
	}
	for i := range a {
		if (a[i].Num == nil) != (b[i].Num == nil) {
			return false
		}
		if a[i].Num == nil && a[i].Lit != b[i].Lit {
			return false
		}
		if a[i].Num != nil && (a[i].Width != b[i].Width || a[i].Width == 0) {
			return false
		}
	}
	return true
}

func (x *Exec) widthObligations(ps []FmtPart, st *State) {
	for _, p := range ps {
		if p.Num != nil && p.Width > 0 && !p.Num.isConst() {
			// the same field proved in range earlier on this path need not be proved again
			key := fmt.Sprintf("%d/%d", p.Num.id, p.Width)
			if prev, ok := x.widthDone[key]; ok && isPrefix(prev, st.pc) {
				continue
			}
			if x.widthDone == nil {
				x.widthDone = map[string][]*Term{}
			}
			x.widthDone[key] = append([]*Term(nil), st.pc...)
			x.oblige("fmtwidth", st, mkAnd(mkLe(mkInt(0), p.Num), mkLt(p.Num, pow10(p.Width))), nil, "zero-padded field fits its width (so string order is numeric order)")
		}
	}
}

// strCompare returns an Int term with the sign of strings.Compare(a, b).
func (x *Exec) strCompare(a, b *StrV, st *State) *Term {
	if a.Cases != nil || b.Cases != nil {
		return x.compareByEquality(a, b, st)
	}
	if a.Opaque || b.Opaque {
		unsup("comparison of unmodelled strings (%s, %s)", a.Tag, b.Tag)
	}
	if a.Fmt == nil && b.Fmt == nil {
		if len(a.Alts)*len(b.Alts) > altCap {
			unsup("string comparison product too large")
		}
		res := mkInt(0)
		first := true
		for i := len(a.Alts) - 1; i >= 0; i-- {
			for j := len(b.Alts) - 1; j >= 0; j-- {
				c := mkAnd(a.Alts[i].Cond, b.Alts[j].Cond)
				if c.isFalse() {
					continue
				}
				v := mkInt(int64(strings.Compare(a.Alts[i].S, b.Alts[j].S)))
				if first {
					res = v
					first = false
				} else {
					res = mkIte(c, v, res)
				}
			}
		}
		return res
	}
	pa, pb := a.Fmt, b.Fmt
	if pa == nil {
		l, ok := a.isLit()
		if !ok {
			unsup("comparison of formatted and finite-choice strings")
		}
		pa, ok = alignLiteral(l, pb)
		if !ok {
			return x.compareByEquality(a, b, st)
		}
	}
	if pb == nil {
		l, ok := b.isLit()
		if !ok {
			unsup("comparison of formatted and finite-choice strings")
		}
		pb, ok = alignLiteral(l, pa)
		if !ok {
			return x.compareByEquality(a, b, st)
		}
	}
	if !sameShape(pa, pb) {
		return x.compareByEquality(a, b, st)
	}
	x.widthObligations(pa, st)
	x.widthObligations(pb, st)
	// Every numeric field fits its width (obligations above), so the lexicographic order of the two strings is the
	// numeric order of the keys sum(field_i * 10^(total width of the later fields)).
	ka, kb := mkInt(0), mkInt(0)
	for i := range pa {
		if pa[i].Num == nil {
			continue
		}
		ka = mkAdd(mkMul(ka, pow10(pa[i].Width)), pa[i].Num)
		kb = mkAdd(mkMul(kb, pow10(pb[i].Width)), pb[i].Num)
	}
	return mkIte(mkLt(ka, kb), mkInt(-1), mkIte(mkGt(ka, kb), mkInt(1), mkInt(0)))
}

var strEqMemo = map[string]*Term{}
var strEqMu sync.Mutex

func (x *Exec) strEqual(a, b *StrV) *Term {
	if a == b && !a.Opaque {
		return tTrue
	}
	if a.Cases != nil || b.Cases != nil {
		c, o := a, b
		if c.Cases == nil {
			c, o = b, a
		}
		if o.Cases != nil || o.Fmt != nil || o.Opaque {
			unsup("equality of guarded formatted strings")
		}
		res := tFalse
		for _, cs := range c.Cases {
			for _, alt := range o.Alts {
				if m, ok := matchPattern(alt.S, cs.Parts); ok {
					res = mkOr(res, mkAnd(cs.Cond, alt.Cond, m))
				}
			}
		}
		return res
	}
	if a.Opaque || b.Opaque {
		// an unknown string against a literal: an unknown boolean, the same one every time the same string object is
		// compared with the same literal (nothing is assumed about different literals)
		o, l := a, b
		if !o.Opaque {
			o, l = b, a
		}
		if lit, ok := l.isLit(); ok && o.Opaque {
			key := fmt.Sprintf("%p|%s", o, lit)
			strEqMu.Lock()
			v, ok := strEqMemo[key]
			if !ok {
				v = freshVar("streq", SBool)
				strEqMemo[key] = v
			}
			strEqMu.Unlock()
			return v
		}
		unsup("equality of unmodelled strings (%s, %s)", a.Tag, b.Tag)
	}
	if a.Fmt == nil && b.Fmt == nil {
		res := tFalse
		for _, p := range a.Alts {
			for _, q := range b.Alts {
				if p.S == q.S {
					res = mkOr(res, mkAnd(p.Cond, q.Cond))
				}
			}
		}
		return res
	}
	if a.Fmt != nil && b.Fmt != nil && sameShape(a.Fmt, b.Fmt) {
		var cs []*Term
		for i := range a.Fmt {
			if a.Fmt[i].Num != nil {
				cs = append(cs, mkEq(a.Fmt[i].Num, b.Fmt[i].Num))
			}
		}
		return mkAnd(cs...)
	}
	// formatted vs finite choice: match every alternative against the pattern
	f, o := a, b
	if f.Fmt == nil {
		f, o = b, a
	}
	if o.Fmt != nil {
		unsup("equality of formatted strings of different shapes")
	}
	res := tFalse
	for _, alt := range o.Alts {
		if m, ok := matchPattern(alt.S, f.Fmt); ok {
			res = mkOr(res, mkAnd(alt.Cond, m))
		}
	}
	return res
}

// matchPattern: condition under which the formatted string equals lit (false when impossible).
func matchPattern(lit string, ps []FmtPart) (*Term, bool) {
	var conds []*Term
	rest := lit
	for i, p := range ps {
		if p.Num == nil {
			if !strings.HasPrefix(rest, p.Lit) {
				return nil, false
			}
			rest = rest[len(p.Lit):]
			continue
		}
		// number: optional '-' then digits
		j := 0
		if p.Width == 0 && j < len(rest) && rest[j] == '-' {
			j++
		}
		k := j
		for k < len(rest) && rest[k] >= '0' && rest[k] <= '9' {
			k++
		}
		if k == j {
			return nil, false
		}
		if p.Width > 0 {
			if k-j < p.Width {
				return nil, false
			}
			// zero padded to at least Width; longer only without leading zero
			if k-j > p.Width && rest[j] == '0' {
				k = j + p.Width
			}
			// following part decides; take the maximal run unless next literal starts with a digit
			if i+1 < len(ps) && ps[i+1].Num != nil {
				k = j + p.Width
			}
		} else {
			if k-j > 1 && rest[j] == '0' {
				return nil, false // canonical %d never has leading zeros
			}
			if i+1 < len(ps) && ps[i+1].Num != nil {
				return nil, false // ambiguous
			}
		}
		n, err := strconv.ParseInt(rest[:k], 10, 64)
		if err != nil {
			return nil, false
		}
		if rest[:k] == "-0" {
			return nil, false
		}
		conds = append(conds, mkEq(p.Num, mkInt(n)))
		rest = rest[k:]
	}
	if rest != "" {
		return nil, false
	}
	return mkAnd(conds...), true
}

func (x *Exec) strLen(a *StrV) *Term {
	if a.Opaque || a.Cases != nil {
		unsup("len of unmodelled string")
	}
	if a.Fmt != nil {
		n := 0
		for _, p := range a.Fmt {
			if p.Num == nil {
				n += len(p.Lit)
			} else if p.Width > 0 {
				n += p.Width
			} else {
				unsup("len of variable-width formatted string")
			}
		}
		return mkInt(int64(n))
	}
	res := mkInt(int64(len(a.Alts[len(a.Alts)-1].S)))
	for i := len(a.Alts) - 2; i >= 0; i-- {
		res = mkIte(a.Alts[i].Cond, mkInt(int64(len(a.Alts[i].S))), res)
	}
	return res
}

func (x *Exec) strSlice(s *StrV, e *ast.SliceExpr, st *State) Value {
	if s.Opaque || s.Cases != nil {
		unsup("slice of unmodelled string")
	}
	lo, hi := -1, -1
	if e.Low != nil {
		t := x.evalInt(e.Low, st)
		if !t.isConst() {
			unsup("symbolic string slice bound")
		}
		lo = int(t.Int.Int64())
	} else {
		lo = 0
	}
	if e.High != nil {
		t := x.evalInt(e.High, st)
		if !t.isConst() {
			unsup("symbolic string slice bound")
		}
		hi = int(t.Int.Int64())
	}
	if s.Fmt != nil {
		// only slices on part boundaries of fixed-width shapes
		x.widthObligations(s.Fmt, st)
		pos := 0
		var out []FmtPart
		total := 0
		for _, p := range s.Fmt {
			if p.Num != nil && p.Width == 0 {
				unsup("slice of variable-width formatted string")
			}
			if p.Num == nil {
				total += len(p.Lit)
			} else {
				total += p.Width
			}
		}
		if hi < 0 {
			hi = total
		}
		if lo < 0 || hi > total || lo > hi {
			x.oblige("index", st, tFalse, e, "string slice bounds in range")
			st.assume(tFalse)
			return litStr("")
		}
		for _, p := range s.Fmt {
			w := p.Width
			if p.Num == nil {
				w = len(p.Lit)
			}
			a, b := pos, pos+w
			pos = b
			if b <= lo || a >= hi {
				continue
			}
			if p.Num == nil {
				from, to := 0, w
				if lo > a {
					from = lo - a
				}
				if hi < b {
					to = hi - a
				}
				out = append(out, FmtPart{Lit: p.Lit[from:to]})
				continue
			}
			if a < lo || b > hi {
				unsup("string slice cuts through a numeric field")
			}
			out = append(out, p)
		}
		return &StrV{Fmt: joinParts(out)}
	}
	var alts []StrAlt
	for _, a := range s.Alts {
		h := hi
		if h < 0 {
			h = len(a.S)
		}
		if lo > h || h > len(a.S) {
			x.oblige("index", st, mkNot(a.Cond), e, "string slice bounds in range")
			continue
		}
		alts = append(alts, StrAlt{a.Cond, a.S[lo:h]})
	}
	return normalizeAlts(alts)
}

func (x *Exec) stringToRunes(s *StrV) Value {
	if l, ok := s.isLit(); ok {
		sv := &SliceV{ElemT: types.Typ[types.Int32]}
		for _, r := range l {
			sv.Elems = append(sv.Elems, IntV{mkInt(int64(r))})
		}
		return sv
	}
	if s.Opaque || s.Fmt != nil || s.Cases != nil {
		unsup("[]rune of unmodelled string")
	}
	// alternatives may have different rune counts: the slice gets a symbolic length
	maxN := 0
	for _, a := range s.Alts {
		if c := utf8.RuneCountInString(a.S); c > maxN {
			maxN = c
		}
	}
	sv := &SliceV{ElemT: types.Typ[types.Int32]}
	for i := 0; i < maxN; i++ {
		var t *Term
		for j := len(s.Alts) - 1; j >= 0; j-- {
			rs := []rune(s.Alts[j].S)
			v := mkInt(0)
			if i < len(rs) {
				v = mkInt(int64(rs[i]))
			}
			if t == nil {
				t = v
			} else {
				t = mkIte(s.Alts[j].Cond, v, t)
			}
		}
		sv.Elems = append(sv.Elems, IntV{t})
	}
	var ln *Term
	same := true
	for j := len(s.Alts) - 1; j >= 0; j-- {
		c := mkInt(int64(utf8.RuneCountInString(s.Alts[j].S)))
		if ln == nil {
			ln = c
		} else {
			if c != ln {
				same = false
			}
			ln = mkIte(s.Alts[j].Cond, c, ln)
		}
	}
	if !same {
		sv.Len = ln
	}
	return sv
}

func (x *Exec) runesToString(s *SliceV) Value {
	// each element: ite-tree over constants
	res := litStr("")
	for _, e := range s.Elems {
		iv, ok := e.(IntV)
		if !ok {
			unsup("string of non-rune slice")
		}
		res = strConcat(res, runeChoice(iv.T))
	}
	return res
}

func runeChoice(t *Term) *StrV {
	var alts []StrAlt
	var rec func(t *Term, c *Term)
	rec = func(t *Term, c *Term) {
		if c.isFalse() {
			return
		}
		if t.isConst() {
			alts = append(alts, StrAlt{c, string(rune(t.Int.Int64()))})
			return
		}
		if t.Op == "ite" {
			rec(t.Args[1], mkAnd(c, t.Args[0]))
			rec(t.Args[2], mkAnd(c, mkNot(t.Args[0])))
			return
		}
		unsup("string of symbolic rune")
	}
	rec(t, tTrue)
	return normalizeAlts(alts)
}

func (x *Exec) sprintf(call *ast.CallExpr, st *State) Value {
	tv := x.info().Types[call.Args[0]]
	if tv.Value == nil {
		return &StrV{Opaque: true, Tag: "Sprintf-dynamic-format"}
	}
	format := litOf(x.constValue(tv))
	var parts []FmtPart
	res := litStr("")
	ai := 1
	flush := func() {
		if len(parts) > 0 {
			lit, allLit := "", true
			for _, p := range parts {
				if p.Num != nil {
					allLit = false
				}
				lit += p.Lit
			}
			if allLit {
				res = strConcat(res, litStr(lit))
			} else {
				res = strConcat(res, &StrV{Fmt: joinParts(parts)})
			}
			parts = nil
		}
	}
	i := 0
	for i < len(format) {
		c := format[i]
		if c != '%' {
			j := i
			for j < len(format) && format[j] != '%' {
				j++
			}
			parts = append(parts, FmtPart{Lit: format[i:j]})
			i = j
			continue
		}
		i++
		if i < len(format) && format[i] == '%' {
			parts = append(parts, FmtPart{Lit: "%"})
			i++
			continue
		}
		zero := false
		width := 0
		if i < len(format) && format[i] == '0' {
			zero = true
			i++
		}
		for i < len(format) && format[i] >= '0' && format[i] <= '9' {
			width = width*10 + int(format[i]-'0')
			i++
		}
		if i >= len(format) || ai >= len(call.Args) {
			return &StrV{Opaque: true, Tag: "Sprintf-format"}
		}
		verb := format[i]
		i++
		arg := x.eval(call.Args[ai], st)
		ai++
		switch v := arg.(type) {
		case IntV:
			if verb != 'd' && verb != 'v' {
				return &StrV{Opaque: true, Tag: "Sprintf-verb"}
			}
			if width > 0 && !zero {
				return &StrV{Opaque: true, Tag: "Sprintf-space-pad"}
			}
			if v.T.isConst() && (width == 0 || v.T.Int.Sign() >= 0) {
				d := v.T.Int.String()
				for len(d) < width {
					d = "0" + d
				}
				parts = append(parts, FmtPart{Lit: d})
			} else {
				parts = append(parts, FmtPart{Num: v.T, Width: width})
			}
		case *StrV:
			if verb != 's' && verb != 'v' || width != 0 {
				return &StrV{Opaque: true, Tag: "Sprintf-verb"}
			}
			if ps, ok := toFmtParts(v); ok {
				parts = append(parts, ps...)
			} else {
				flush()
				res = strConcat(res, v)
			}
		default:
			return &StrV{Opaque: true, Tag: "Sprintf-arg"}
		}
	}
	flush()
	if res.Fmt != nil {
		allLit := true
		for _, p := range res.Fmt {
			if p.Num != nil {
				allLit = false
			}
		}
		if allLit {
			s := ""
			for _, p := range res.Fmt {
				s += p.Lit
			}
			return litStr(s)
		}
	}
	return res
}

func litOf(v Value) string {
	s, _ := v.(*StrV).isLit()
	return s
}

// strings.* on finite-choice strings: evaluated concretely on every alternative.
func (x *Exec) stringsFn(name string, call *ast.CallExpr, st *State) Value {
	var svals []*StrV
	var ints []*Term
	for _, a := range call.Args {
		v := x.eval(a, st)
		switch t := v.(type) {
		case *StrV:
			if (t.Opaque || t.Cases != nil) && (name == "Replace" || name == "ToUpper") {
				// total functions from strings to strings: an unmodelled argument gives an unmodelled result
				for _, b := range call.Args {
					x.eval(b, st)
				}
				return &StrV{Opaque: true, Tag: "strings." + name}
			}
			if t.Opaque || t.Cases != nil {
				unsup("strings.%s on unmodelled string (%s)", name, t.Tag)
			}
			if t.Fmt != nil {
				unsup("strings.%s on formatted string", name)
			}
			svals = append(svals, t)
		case IntV:
			ints = append(ints, t.T)
		default:
			unsup("strings.%s argument %T", name, v)
		}
	}
	type combo struct {
		c *Term
		s []string
	}
	combos := []combo{{tTrue, nil}}
	for _, sv := range svals {
		var next []combo
		for _, cb := range combos {
			for _, a := range sv.Alts {
				c := mkAnd(cb.c, a.Cond)
				if c.isFalse() {
					continue
				}
				next = append(next, combo{c, append(append([]string{}, cb.s...), a.S)})
			}
		}
		if len(next) > altCap {
			unsup("strings.%s alternatives exceed cap", name)
		}
		combos = next
	}
	switch name {
	case "Contains", "HasPrefix", "HasSuffix", "EqualFold":
		res := tFalse
		for _, cb := range combos {
			var b bool
			switch name {
			case "Contains":
				b = strings.Contains(cb.s[0], cb.s[1])
			case "HasPrefix":
				b = strings.HasPrefix(cb.s[0], cb.s[1])
			case "HasSuffix":
				b = strings.HasSuffix(cb.s[0], cb.s[1])
			case "EqualFold":
				b = strings.EqualFold(cb.s[0], cb.s[1])
			}
			if b {
				res = mkOr(res, cb.c)
			}
		}
		return BoolV{res}
	case "Index", "LastIndex":
		var res *Term
		for i := len(combos) - 1; i >= 0; i-- {
			cb := combos[i]
			var n int
			if name == "Index" {
				n = strings.Index(cb.s[0], cb.s[1])
			} else {
				n = strings.LastIndex(cb.s[0], cb.s[1])
			}
			if res == nil {
				res = mkInt(int64(n))
			} else {
				res = mkIte(cb.c, mkInt(int64(n)), res)
			}
		}
		return IntV{res}
	case "Replace", "ToUpper":
		var alts []StrAlt
		for _, cb := range combos {
			var s string
			if name == "ToUpper" {
				s = strings.ToUpper(cb.s[0])
			} else {
				if len(ints) != 1 || !ints[0].isConst() {
					unsup("strings.Replace with symbolic count")
				}
				s = strings.Replace(cb.s[0], cb.s[1], cb.s[2], int(ints[0].Int.Int64()))
			}
			alts = append(alts, StrAlt{cb.c, s})
		}
		return normalizeAlts(alts)
	}
	unsup("strings.%s is not modelled", name)
	return nil
}

// shapeHook: fields whose shape (not content) is fixed by construction, as declared by `shape` clauses of the
// owner's type declaration. The shape is proved where the object is built (obligation kind "shape") or, for
// trusted constructors, checked by the bounded stand-in named there.
func shapeHook(x *Exec, owner *types.Named, f *types.Var, name string, depth int, st *State, input bool) Value {
	d := x.typeInvDecl(owner)
	if d == nil {
		return nil
	}
	for _, c := range d.Shapes {
		fs := strings.Fields(c.Text)
		if len(fs) < 3 || fs[0] != f.Name() {
			continue
		}
		switch fs[1] {
		case "list":
			n := 0
			fmt.Sscan(fs[2], &n)
			et := x.lookupTypeExpr(x.w.Pkgs[d.Pkg], fs[3])
			l := &ListV{}
			for i := 0; i < n; i++ {
				l.Elems = append(l.Elems, &BoxV{V: x.freshValue(fmt.Sprintf("%s[%d]", name, i), et, depth, st, input), T: et})
			}
			return l
		case "slice":
			n := 0
			fmt.Sscan(fs[2], &n)
			sl, ok := f.Type().Underlying().(*types.Slice)
			if !ok {
				unsup("shape slice on non-slice field %s", f.Name())
			}
			sv := &SliceV{ElemT: sl.Elem()}
			for i := 0; i < n; i++ {
				sv.Elems = append(sv.Elems, x.freshValue(fmt.Sprintf("%s[%d]", name, i), sl.Elem(), depth, st, input))
			}
			return sv
		case "mapkeys":
			mt, ok := f.Type().Underlying().(*types.Map)
			if !ok {
				unsup("shape mapkeys on non-map field %s", f.Name())
			}
			keys := x.stringTable(x.w.Pkgs[d.Pkg], fs[2])
			mv := &MapV{ValT: mt.Elem()}
			for i, k := range keys {
				mv.Keys = append(mv.Keys, k)
				mv.Vals = append(mv.Vals, x.freshValue(fmt.Sprintf("%s[%d]", name, i), mt.Elem(), depth, st, input))
			}
			return mv
		case "strlist":
			keys := x.stringTable(x.w.Pkgs[d.Pkg], fs[2])
			l := &ListV{}
			for _, k := range keys {
				l.Elems = append(l.Elems, &BoxV{V: litStr(k), T: types.Typ[types.String]})
			}
			return l
		}
	}
	return nil
}

func (x *Exec) lookupTypeExpr(pk *Pkg, s string) types.Type {
	ptr := strings.HasPrefix(s, "*")
	n := strings.TrimPrefix(s, "*")
	if n == "string" {
		return types.Typ[types.String]
	}
	obj := pk.Types.Scope().Lookup(n)
	if obj == nil {
		unsup("shape: unknown type %s", s)
	}
	if ptr {
		return types.NewPointer(obj.Type())
	}
	return obj.Type()
}

func (x *Exec) stringTable(pk *Pkg, name string) []string {
	obj, ok := pk.Types.Scope().Lookup(name).(*types.Var)
	if !ok {
		unsup("shape: unknown table %s", name)
	}
	v := x.pkgVar(obj)
	sv, ok := v.(*SliceV)
	if !ok {
		unsup("shape: %s is not a slice", name)
	}
	var out []string
	for _, e := range sv.Elems {
		s, ok := e.(*StrV).isLit()
		if !ok {
			unsup("shape: %s has non-literal entries", name)
		}
		out = append(out, s)
	}
	return out
}

// checkShape: obligations that a constructed field value has its declared shape.
func (x *Exec) checkShape(owner *types.Named, field string, v Value, st *State, at ast.Node) {
	d := x.typeInvDecl(owner)
	if d == nil {
		return
	}
	for _, c := range d.Shapes {
		fs := strings.Fields(c.Text)
		if len(fs) < 3 || fs[0] != field {
			continue
		}
		ok := false
		switch fs[1] {
		case "list":
			n := 0
			fmt.Sscan(fs[2], &n)
			if l, isL := v.(*ListV); isL && !l.Nil && len(l.Elems) == n && l.allPresent() {
				ok = true
				et := x.lookupTypeExpr(x.w.Pkgs[d.Pkg], fs[3])
				for _, e := range l.Elems {
					if b, isB := e.(*BoxV); !isB || !types.Identical(b.T, et) {
						ok = false
					}
				}
			}
		case "slice":
			n := 0
			fmt.Sscan(fs[2], &n)
			if sl, isS := v.(*SliceV); isS && len(sl.Elems) == n {
				ok = true
			}
		case "mapkeys":
			keys := x.stringTable(x.w.Pkgs[d.Pkg], fs[2])
			if m, isM := v.(*MapV); isM && len(m.Keys) == len(uniqueStrings(keys)) {
				ok = true
				have := map[string]bool{}
				for _, k := range m.Keys {
					have[k] = true
				}
				for _, k := range keys {
					if !have[k] {
						ok = false
					}
				}
				for _, mv := range m.Vals {
					if sv, isSt := mv.(*StructV); isSt {
						x.oblige("shape", st, mkNot(sv.Nil), at, "map value of "+field+" is not nil")
					}
				}
			}
		case "strlist":
			keys := x.stringTable(x.w.Pkgs[d.Pkg], fs[2])
			if l, isL := v.(*ListV); isL && !l.Nil && len(l.Elems) == len(keys) && l.allPresent() {
				ok = true
				for i, e := range l.Elems {
					b, isB := e.(*BoxV)
					if !isB {
						ok = false
						continue
					}
					sv, isS := b.V.(*StrV)
					if !isS {
						ok = false
						continue
					}
					if lit, isLit := sv.isLit(); !isLit || lit != keys[i] {
						ok = false
					}
				}
			}
		}
		x.oblige("shape", st, mkBool(ok), at, "field "+field+" has shape: "+c.Text)
	}
}

func uniqueStrings(xs []string) []string {
	m := map[string]bool{}
	var out []string
	for _, s := range xs {
		if !m[s] {
			m[s] = true
			out = append(out, s)
		}
	}
	return out
}

func isPrefix(a, b []*Term) bool {
	if len(a) > len(b) {
		return false
	}
	for i := range a {
		if a[i] != b[i] {
			return false
		}
	}
	return true
}

// compareByEquality: strings whose order cannot be modelled but whose equality can: the result is 0 exactly when
// they are equal and otherwise some unknown non-zero value (sound for the == 0 / != 0 tests the library uses;
// an order test on it is simply undetermined).
func (x *Exec) compareByEquality(a, b *StrV, st *State) *Term {
	eq := x.strEqual(a, b)
	u := freshVar("cmp", SInt)
	st.assume(mkNot(mkEq(u, mkInt(0))))
	return mkIte(eq, mkInt(0), u)
}
