package main

// Contract files: //@ comment blocks in <pkg>/zz_contracts_verif.go (build tag verif, comment-only).
//
//   //@ spec func name(params) T
//   //@   = expr
//   //@ lemma name(params) [tags]
//   //@   requires e / ensures e / split v in lo..hi
//   //@ func (recv *T) Name(params) results [tags]
//   //@   requires e / ensures e / panics_iff e / loop N invariant e / loop N decreases e / split … / modifies f1 f2
//   //@ ghost func name(params) [tags]
//   //@   requires e
//   //@   body
//   //@     Go statements …
//   //@ type T established_by F1 F2
//   //@   invariant e          (self is the *T)
//
// Expressions are Go expressions over the function's parameters plus: result, old(e), implies(a,b), ite(c,a,b),
// divf(a,b), modf(a,b), spec-function calls, forall/exists with constant bounds.

import (
	"fmt"
	"os"
	"regexp"
	"strconv"
	"strings"
)

type Clause struct {
	Kind   string // requires ensures panics_iff invariant decreases split assert typeinv
	Loop   int    // loop ordinal (1-based) for invariant/decreases
	Text   string
	Tags   []string
	Line   int
	FnName string // generated Go function name holding the expression
	// split
	SplitVar string
	SplitLo  string
	SplitHi  string
}

type Decl struct {
	Kind     string // spec lemma func ghost type
	Pkg      string // package path
	PkgName  string
	File     string
	Line     int
	Sig      string // text after the keyword up to tags
	Name     string // function name (for func: Recv.Name or Name)
	Recv     string // receiver type name without *
	RecvVar  string
	Params   string // parameter list text (without parentheses)
	Results  string
	Tags     []string
	Clauses  []*Clause
	Body     string   // spec func body / ghost func body
	Estab    []string // type: established_by
	Trusted  bool
	Modifies []string
	Pure     bool // spec func with scalar-only signature
	Opaque   bool // spec func: definition hidden unless a unit says `reveal name`
	Reveal   []string
	Uninterp bool // spec func without SMT definition (declare-fun); its Go body is used for replay / stand-ins only
	Axiom    bool // lemma assumed, not proved (must be backed by a bounded stand-in)
	Shapes   []*Clause
	Checked  string // axiom: name of the stand-in that checks it
}

var reUseFor = regexp.MustCompile(`^(.*\))\s+for\s+(\w+)\s+in\s+(-?\d+)\.\.(-?\d+)$`)
var reTags = regexp.MustCompile(`\[((?:C\d+\s*)+)\]\s*$`)
var reFuncSig = regexp.MustCompile(`^(?:\(\s*(\w+)\s+\*?(\w+)\s*\)\s*)?(\w+)\s*\((.*?)\)\s*(.*)$`)

func parseContractFile(path, pkgPath, pkgName string) ([]*Decl, error) {
	data, err := os.ReadFile(path)
	if err != nil {
		return nil, err
	}
	var decls []*Decl
	var cur *Decl
	var curClause *Clause
	inBody := false
	lines := strings.Split(string(data), "\n")
	for ln, raw := range lines {
		if !strings.HasPrefix(raw, "//@") {
			continue
		}
		txt := raw[3:]
		if strings.TrimSpace(txt) == "" {
			continue
		}
		indented := strings.HasPrefix(txt, "   ") || strings.HasPrefix(txt, "\t")
		body := strings.TrimSpace(txt)
		if strings.HasPrefix(body, "#") {
			continue // contract-file comment
		}
		if !indented {
			// new declaration
			inBody = false
			curClause = nil
			d := &Decl{Pkg: pkgPath, PkgName: pkgName, File: path, Line: ln + 1}
			if m := reTags.FindStringSubmatch(body); m != nil {
				d.Tags = strings.Fields(m[1])
				body = strings.TrimSpace(body[:len(body)-len(m[0])])
			}
			switch {
			case body == "gocode":
				d.Kind = "gocode"
				inBody = true
				decls = append(decls, d)
				cur = d
				continue
			case strings.HasPrefix(body, "uninterp spec func "):
				d.Kind = "spec"
				d.Uninterp = true
				d.Sig = strings.TrimPrefix(body, "uninterp spec func ")
			case strings.HasPrefix(body, "axiom "):
				d.Kind = "lemma"
				d.Trusted = true
				d.Axiom = true
				d.Sig = strings.TrimPrefix(body, "axiom ")
			case strings.HasPrefix(body, "opaque spec func "):
				d.Kind = "spec"
				d.Opaque = true
				d.Sig = strings.TrimPrefix(body, "opaque spec func ")
			case strings.HasPrefix(body, "spec func "):
				d.Kind = "spec"
				d.Sig = strings.TrimPrefix(body, "spec func ")
			case strings.HasPrefix(body, "lemma "):
				d.Kind = "lemma"
				d.Sig = strings.TrimPrefix(body, "lemma ")
			case strings.HasPrefix(body, "ghost func "):
				d.Kind = "ghost"
				d.Sig = strings.TrimPrefix(body, "ghost func ")
			case strings.HasPrefix(body, "func "):
				d.Kind = "func"
				d.Sig = strings.TrimPrefix(body, "func ")
			case strings.HasPrefix(body, "type "):
				d.Kind = "type"
				f := strings.Fields(strings.TrimPrefix(body, "type "))
				d.Name = f[0]
				for i := 1; i < len(f); i++ {
					if f[i] == "established_by" {
						d.Estab = f[i+1:]
						break
					}
				}
			default:
				return nil, fmt.Errorf("%s:%d: unknown declaration %q", path, ln+1, body)
			}
			if d.Kind != "type" {
				m := reFuncSig.FindStringSubmatch(d.Sig)
				if m == nil {
					return nil, fmt.Errorf("%s:%d: cannot parse signature %q", path, ln+1, d.Sig)
				}
				d.RecvVar, d.Recv, d.Name, d.Params, d.Results = m[1], m[2], m[3], m[4], strings.TrimSpace(m[5])
				if d.Recv != "" {
					d.Name = d.Recv + "." + d.Name
				}
			}
			decls = append(decls, d)
			cur = d
			continue
		}
		if cur == nil {
			return nil, fmt.Errorf("%s:%d: clause outside declaration", path, ln+1)
		}
		if inBody {
			cur.Body += strings.TrimPrefix(txt, "  ") + "\n"
			continue
		}
		kw := strings.Fields(body)[0]
		rest := strings.TrimSpace(strings.TrimPrefix(body, kw))
		var tags []string
		newClause := func(kind string, text string) *Clause {
			if m := reTags.FindStringSubmatch(text); m != nil {
				tags = strings.Fields(m[1])
				text = strings.TrimSpace(text[:len(text)-len(m[0])])
			}
			c := &Clause{Kind: kind, Text: text, Tags: tags, Line: ln + 1}
			cur.Clauses = append(cur.Clauses, c)
			curClause = c
			return c
		}
		switch kw {
		case "=":
			if cur.Kind != "spec" {
				return nil, fmt.Errorf("%s:%d: '=' outside spec func", path, ln+1)
			}
			cur.Body = rest
			curClause = &Clause{Kind: "specbody"}
		case "defines":
			// defines UF(args) == EXPR: names the (deterministic) result of this function by an uninterpreted function;
			// assumed by callers, nothing to prove (the engine only accepts functions it executes as pure functions of their inputs)
			newClause("defines", rest)
		case "derived":
			// derived EXPR: a consequence of requires + ensures (proved from them alone), assumed by callers like an ensures
			newClause("derived", rest)
		case "requires", "ensures", "panics_iff", "invariant", "assert", "assume":
			newClause(kw, rest)
		case "use":
			// use lemmaName(args) [@ ANCHOR]: lemma instance assumed at entry or after the anchor statement
			// (its requires become an obligation)
			txt := rest
			anchor := ""
			if i := strings.LastIndex(rest, "@"); i >= 0 {
				txt, anchor = strings.TrimSpace(rest[:i]), strings.TrimSpace(rest[i+1:])
			}
			// use L(args) for VAR in lo..hi : one instance per value (textual substitution of VAR)
			if m := reUseFor.FindStringSubmatch(txt); m != nil {
				var lo, hi int
				fmt.Sscan(m[3], &lo)
				fmt.Sscan(m[4], &hi)
				re := regexp.MustCompile(`\b` + regexp.QuoteMeta(m[2]) + `\b`)
				for k := lo; k <= hi; k++ {
					c := newClause("use", re.ReplaceAllString(strings.TrimSpace(m[1]), fmt.Sprint(k)))
					c.SplitVar = anchor
				}
				break
			}
			c := newClause("use", txt)
			c.SplitVar = anchor
		case "ghost":
			// ghost NAME TYPE = EXPR @ ANCHOR : names the value of EXPR right after the anchor statement
			i := strings.LastIndex(rest, "@")
			j := strings.Index(rest, "=")
			f := strings.Fields(rest[:max0(j)])
			if i < 0 || j < 0 || len(f) != 2 {
				return nil, fmt.Errorf("%s:%d: ghost needs 'NAME TYPE = EXPR @ ANCHOR'", path, ln+1)
			}
			c := newClause("ghost", strings.TrimSpace(rest[j+1:i]))
			c.SplitVar = strings.TrimSpace(rest[i+1:])
			c.SplitLo, c.SplitHi = f[0], f[1]
		case "hint", "cut":
			// hint VAR: expr   -- proved after the first top-level statement assigning VAR, then assumed
			// cut VAR: expr    -- same, and VAR is then havocked so only expr is known about it
			i := strings.Index(rest, ":")
			if i < 0 {
				return nil, fmt.Errorf("%s:%d: %s needs 'VAR: expr'", path, ln+1, kw)
			}
			c := newClause(kw, strings.TrimSpace(rest[i+1:]))
			c.SplitVar = strings.TrimSpace(rest[:i])
		case "loop":
			f := strings.Fields(rest)
			if len(f) < 3 {
				return nil, fmt.Errorf("%s:%d: bad loop clause", path, ln+1)
			}
			n, err := strconv.Atoi(f[0])
			if err != nil {
				return nil, fmt.Errorf("%s:%d: bad loop ordinal", path, ln+1)
			}
			if f[1] != "invariant" && f[1] != "decreases" {
				return nil, fmt.Errorf("%s:%d: bad loop clause kind %s", path, ln+1, f[1])
			}
			text := strings.TrimSpace(strings.TrimPrefix(strings.TrimSpace(strings.TrimPrefix(rest, f[0])), f[1]))
			c := newClause(f[1], text)
			c.Loop = n
		case "split":
			// split EXPR in lo..hi
			k := strings.LastIndex(rest, " in ")
			if k < 0 || !strings.Contains(rest[k+4:], "..") {
				return nil, fmt.Errorf("%s:%d: bad split clause", path, ln+1)
			}
			lh := strings.SplitN(strings.TrimSpace(rest[k+4:]), "..", 2)
			c := newClause("split", strings.TrimSpace(rest[:k]))
			c.SplitVar, c.SplitLo, c.SplitHi = c.Text, lh[0], lh[1]
		case "shape":
			// shape FIELD list N TYPE | slice N | mapkeys VAR | strlist VAR
			c := newClause("shape", rest)
			cur.Shapes = append(cur.Shapes, c)
		case "checked_by":
			cur.Checked = rest
		case "domain":
			// domain VAR LO HI  (axioms: finite domain enumerated by the bounded stand-in)
			c := newClause("domain", rest)
			f := strings.Fields(rest)
			if len(f) != 3 {
				return nil, fmt.Errorf("%s:%d: domain needs VAR LO HI", path, ln+1)
			}
			c.SplitVar, c.SplitLo, c.SplitHi = f[0], f[1], f[2]
		case "reveal":
			cur.Reveal = append(cur.Reveal, strings.Fields(rest)...)
		case "modifies":
			cur.Modifies = append(cur.Modifies, strings.Fields(rest)...)
		case "trusted":
			cur.Trusted = true
		case "body":
			inBody = true
		default:
			// continuation of previous clause / spec body
			if curClause == nil {
				return nil, fmt.Errorf("%s:%d: unknown clause %q", path, ln+1, kw)
			}
			if curClause.Kind == "specbody" {
				cur.Body += " " + body
			} else {
				curClause.Text += " " + body
			}
		}
	}
	return decls, nil
}

func hasTag(tags []string, id string) bool {
	for _, t := range tags {
		if t == id {
			return true
		}
	}
	return false
}

func max0(i int) int {
	if i < 0 {
		return 0
	}
	return i
}
