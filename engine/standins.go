package main

// Bounded stand-ins: Go tests under /verif/standins/<name>/ executed against the real package through
// `go test -overlay` (in-package, nothing written to /repo). Labelled bounded in the evidence; never counted as proved.

import (
	"bytes"
	"context"
	"encoding/json"
	"os"
	"os/exec"
	"path/filepath"
	"regexp"
	"sort"
	"strconv"
	"strings"
	"time"
)

type StandinMeta struct {
	Name       string   `json:"name"`
	Properties []string `json:"properties"`
	Package    string   `json:"package"` // directory under /repo
	Domain     string   `json:"domain"`
	Exhaustive bool     `json:"exhaustive"`
	Test       string   `json:"test"`     // test function name
	Tiers      []string `json:"tiers"`    // tiers in which it runs (default both)
	Timeout    int      `json:"timeout"`  // seconds
	Thorough   string   `json:"thorough"` // domain text for the thorough tier, if different
}

type StandinResult struct {
	Name        string
	Domain      string
	Exhaustive  bool
	Evaluations int
	Failures    []string
	Seconds     float64
	Output      string
	Error       string
}

var reEval = regexp.MustCompile(`(?m)^STANDIN-EVAL (\d+)`)
var reFail = regexp.MustCompile(`(?m)^STANDIN-FAIL (.*)$`)

func (r *Run) runStandins() []*StandinResult {
	var out []*StandinResult
	if r.only != "" && !strings.HasPrefix(r.only, "standin:") {
		return nil
	}
	dirs, _ := filepath.Glob(filepath.Join(verifDir, "standins", "*", "meta.json"))
	sort.Strings(dirs)
	for _, mf := range dirs {
		var m StandinMeta
		b, err := os.ReadFile(mf)
		if err != nil || json.Unmarshal(b, &m) != nil {
			continue
		}
		if !hasTag(m.Properties, r.prop) {
			continue
		}
		if r.only != "" && r.only != "standin:"+m.Name {
			continue
		}
		if len(m.Tiers) > 0 && !hasTag(m.Tiers, r.tier) {
			continue
		}
		out = append(out, r.runStandin(filepath.Dir(mf), &m))
	}
	return out
}

func (r *Run) runStandin(dir string, m *StandinMeta) *StandinResult {
	res := &StandinResult{Name: m.Name, Domain: m.Domain, Exhaustive: m.Exhaustive}
	if r.tier == "thorough" && m.Thorough != "" {
		res.Domain = m.Thorough
	}
	tmp, err := os.MkdirTemp("", "govc-standin-")
	if err != nil {
		res.Error = err.Error()
		return res
	}
	defer os.RemoveAll(tmp)
	repl := map[string]string{}
	files, _ := filepath.Glob(filepath.Join(dir, "*.go"))
	for _, f := range files {
		repl[filepath.Join(repoDir, m.Package, "zz_standin_"+m.Name+"_"+filepath.Base(f))] = f
	}
	ovb, _ := json.Marshal(map[string]map[string]string{"Replace": repl})
	ovPath := filepath.Join(tmp, "overlay.json")
	os.WriteFile(ovPath, ovb, 0644)
	to := m.Timeout
	if to == 0 {
		to = 600
	}
	if r.tier == "thorough" {
		to *= 6
	}
	ctx, cancel := context.WithTimeout(context.Background(), time.Duration(to+30)*time.Second)
	defer cancel()
	cmd := exec.CommandContext(ctx, "go", "test", "-tags", "verif", "-overlay", ovPath, "-v", "-vet=off", "-count=1", "-timeout", strconv.Itoa(to)+"s", "-run", "^"+m.Test+"$", "./"+m.Package)
	cmd.Dir = repoDir
	seed := os.Getenv("VERIF_SEED")
	if seed == "" {
		seed = "0"
	}
	cmd.Env = append(os.Environ(), "GOFLAGS=-mod=mod", "GOPROXY=off", "GOSUMDB=off", "GOTOOLCHAIN=local", "VERIF_TIER="+r.tier, "VERIF_SEED="+seed)
	var ob bytes.Buffer
	cmd.Stdout = &ob
	cmd.Stderr = &ob
	t0 := time.Now()
	cmd.Run()
	res.Seconds = time.Since(t0).Seconds()
	o := ob.String()
	if len(o) > 20000 {
		o = o[:10000] + "\n...\n" + o[len(o)-10000:]
	}
	res.Output = o
	for _, g := range reEval.FindAllStringSubmatch(o, -1) {
		n, _ := strconv.Atoi(g[1])
		res.Evaluations += n
	}
	for _, g := range reFail.FindAllStringSubmatch(o, -1) {
		res.Failures = append(res.Failures, g[1])
	}
	if !strings.Contains(o, "STANDIN-DONE") {
		res.Error = "stand-in did not complete (build error, panic or timeout)"
	}
	return res
}
