package main

// Bounded stand-ins: Go tests under /verif/standins/<name>/ executed against the real package through
// `go test -overlay` (in-package, nothing written to /repo). Labelled bounded in the evidence; never counted as proved.

import (
	"bytes"
	"context"
	"encoding/json"
	"fmt"
	"os"
	"os/exec"
	"path/filepath"
	"regexp"
	"sort"
	"strconv"
	"strings"
	"time"
)

type StandinMeta struct {
	Name       string   `json:"name"`
	Properties []string `json:"properties"`
	Package    string   `json:"package"` // directory under /repo
	Domain     string   `json:"domain"`
	Exhaustive bool     `json:"exhaustive"`
	Test       string   `json:"test"`     // test function name
	Tiers      []string `json:"tiers"`    // tiers in which it runs (default both)
	Timeout    int      `json:"timeout"`  // seconds
	Thorough   string   `json:"thorough"` // domain text for the thorough tier, if different
}

type StandinResult struct {
	Name        string
	Domain      string
	Exhaustive  bool
	Evaluations int
	Failures    []string
	Seconds     float64
	Output      string
	Error       string
}

var reEval = regexp.MustCompile(`(?m)^STANDIN-EVAL (\d+)`)
var reFail = regexp.MustCompile(`(?m)^STANDIN-FAIL (.*)$`)

func (r *Run) runStandins() []*StandinResult {
	var out []*StandinResult
	if r.only != "" && !strings.HasPrefix(r.only, "standin:") {
		return nil
	}
	dirs, _ := filepath.Glob(filepath.Join(verifDir, "standins", "*", "meta.json"))
	sort.Strings(dirs)
	for _, mf := range dirs {
		var m StandinMeta
		b, err := os.ReadFile(mf)
		if err != nil || json.Unmarshal(b, &m) != nil {
			continue
		}
		if !hasTag(m.Properties, r.prop) {
			continue
		}
		if r.only != "" && r.only != "standin:"+m.Name {
			continue
		}
		if len(m.Tiers) > 0 && !hasTag(m.Tiers, r.tier) {
			continue
		}
		out = append(out, r.runStandin(filepath.Dir(mf), &m, ""))
	}
	out = append(out, r.runAxiomStandins()...)
	return out
}

// runAxiomStandins: every axiom with `checked_by NAME` and `domain` clauses is executed over its whole finite domain
// with the uninterpreted spec functions bound to the real code (their replay bodies).
func (r *Run) runAxiomStandins() []*StandinResult {
	byName := map[string][]*Decl{}
	var names []string
	for _, d := range r.w.Lemmas {
		if !d.Axiom || d.Checked == "" || d.Checked == "definitional" {
			continue
		}
		used := hasTag(d.Tags, r.prop)
		for _, u := range r.units {
			for _, l := range u.Lemmas {
				if l == d.Name {
					used = true
				}
			}
		}
		if !used {
			continue
		}
		if _, ok := byName[d.Checked]; !ok {
			names = append(names, d.Checked)
		}
		byName[d.Checked] = append(byName[d.Checked], d)
	}
	sort.Strings(names)
	var out []*StandinResult
	for _, n := range names {
		if r.only != "" && r.only != "standin:"+n {
			continue
		}
		ds := byName[n]
		pk := r.w.Pkgs[ds[0].Pkg]
		var tb strings.Builder
		fmt.Fprintf(&tb, "package %s\n\nimport (\n\t\"fmt\"\n\t\"testing\"\n)\n\nfunc TestStandinAxioms_%s(t *testing.T) {\n\tn := 0\n\tfails := 0\n", pk.Name, n)
		var doms []string
		for _, d := range ds {
			var vars []string
			depth := 1
			for _, c := range d.Clauses {
				if c.Kind == "domain" {
					fmt.Fprintf(&tb, "%sfor %s := %s; %s <= %s; %s++ {\n", strings.Repeat("\t", depth), c.SplitVar, c.SplitLo, c.SplitVar, c.SplitHi, c.SplitVar)
					vars = append(vars, c.SplitVar)
					doms = append(doms, fmt.Sprintf("%s: %s in %s..%s", d.Name, c.SplitVar, c.SplitLo, c.SplitHi))
					depth++
				}
			}
			pn, _ := d.paramNamesTypes()
			args := strings.Join(pn, ", ")
			ind := strings.Repeat("\t", depth)
			fmt.Fprintf(&tb, "%sn++\n%sif %s__req(%s) && !%s__ens(%s) {\n%s\tfails++\n%s\tif fails <= 20 { fmt.Println(\"STANDIN-FAIL axiom=%s\", %s) }\n%s}\n", ind, ind, d.Name, args, d.Name, args, ind, ind, d.Name, fmtArgs(vars), ind)
			for i := len(vars); i > 0; i-- {
				fmt.Fprintf(&tb, "%s}\n", strings.Repeat("\t", i))
			}
		}
		tb.WriteString("\tfmt.Println(\"STANDIN-EVAL\", n)\n\tfmt.Println(\"STANDIN-DONE\")\n}\n")
		tmp, err := os.MkdirTemp("", "govc-axs-")
		if err != nil {
			continue
		}
		os.WriteFile(filepath.Join(tmp, "axioms_test.go"), []byte(tb.String()), 0644)
		os.WriteFile(filepath.Join(tmp, "spec.go"), []byte(r.w.replaySpecSource(pk)), 0644)
		m := &StandinMeta{Name: n, Package: filepath.Base(pk.Dir), Domain: "axioms " + strings.Join(doms, "; ") + " (complete enumeration of the finite domain, real code behind the uninterpreted functions)", Exhaustive: true, Test: "TestStandinAxioms_" + n, Timeout: 900}
		out = append(out, r.runStandin(tmp, m, ""))
		os.RemoveAll(tmp)
	}
	return out
}

func fmtArgs(vars []string) string {
	var ps []string
	for _, v := range vars {
		ps = append(ps, fmt.Sprintf("%q, %s", v+"=", v))
	}
	return strings.Join(ps, ", ")
}

func (r *Run) runStandin(dir string, m *StandinMeta, _ string) *StandinResult {
	res := &StandinResult{Name: m.Name, Domain: m.Domain, Exhaustive: m.Exhaustive}
	if r.tier == "thorough" && m.Thorough != "" {
		res.Domain = m.Thorough
	}
	tmp, err := os.MkdirTemp("", "govc-standin-")
	if err != nil {
		res.Error = err.Error()
		return res
	}
	defer os.RemoveAll(tmp)
	repl := map[string]string{}
	files, _ := filepath.Glob(filepath.Join(dir, "*.go"))
	for _, f := range files {
		repl[filepath.Join(repoDir, m.Package, "zz_standin_"+m.Name+"_"+filepath.Base(f))] = f
	}
	ovb, _ := json.Marshal(map[string]map[string]string{"Replace": repl})
	ovPath := filepath.Join(tmp, "overlay.json")
	os.WriteFile(ovPath, ovb, 0644)
	to := m.Timeout
	if to == 0 {
		to = 600
	}
	if r.tier == "thorough" {
		to *= 6
	}
	ctx, cancel := context.WithTimeout(context.Background(), time.Duration(to+30)*time.Second)
	defer cancel()
	cmd := exec.CommandContext(ctx, "go", "test", "-tags", "verif", "-overlay", ovPath, "-v", "-vet=off", "-count=1", "-timeout", strconv.Itoa(to)+"s", "-run", "^"+m.Test+"$", "./"+m.Package)
	cmd.Dir = repoDir
	seed := os.Getenv("VERIF_SEED")
	if seed == "" {
		seed = "0"
	}
	cmd.Env = append(os.Environ(), "GOFLAGS=-mod=mod", "GOPROXY=off", "GOSUMDB=off", "GOTOOLCHAIN=local", "VERIF_TIER="+r.tier, "VERIF_SEED="+seed)
	var ob bytes.Buffer
	cmd.Stdout = &ob
	cmd.Stderr = &ob
	t0 := time.Now()
	cmd.Run()
	res.Seconds = time.Since(t0).Seconds()
	o := ob.String()
	if len(o) > 20000 {
		o = o[:10000] + "\n...\n" + o[len(o)-10000:]
	}
	res.Output = o
	for _, g := range reEval.FindAllStringSubmatch(o, -1) {
		n, _ := strconv.Atoi(g[1])
		res.Evaluations += n
	}
	for _, g := range reFail.FindAllStringSubmatch(o, -1) {
		res.Failures = append(res.Failures, g[1])
	}
	if !strings.Contains(o, "STANDIN-DONE") {
		res.Error = "stand-in did not complete (build error, panic or timeout)"
	}
	return res
}
