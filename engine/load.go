package main

// Loading: /repo is loaded with -tags=verif; contract files are parsed; for every package with contracts a
// Go file holding the spec functions, clause functions and ghost functions is generated and the package is
// type-checked again together with that file, so contract expressions are typed by go/types against the real
// package scope. Nothing is written into /repo.

import (
	"bytes"
	"fmt"
	"go/ast"
	"go/parser"
	"go/printer"
	"go/token"
	"go/types"
	"path/filepath"
	"regexp"
	"sort"
	"strings"

	"golang.org/x/tools/go/packages"
)

const modPath = "github.com/6tail/lunar-go"

var repoDir = "/repo"

type Pkg struct {
	Path    string
	Name    string
	Dir     string
	Files   []*ast.File // real files (re-parsed) + generated file last
	GenFile *ast.File
	GenSrc  string
	Types   *types.Package
	Info    *types.Info
	Decls   []*Decl
	Funcs   map[string]*ast.FuncDecl // "Recv.Name" or "Name" -> decl (real + generated)
	P1      *packages.Package
	Imports []string // module-internal imports
}

type World struct {
	Fset       *token.FileSet
	Pkgs       map[string]*Pkg
	Order      []*Pkg
	Std        map[string]*types.Package
	FuncDecl   map[*types.Func]*ast.FuncDecl
	FuncPkg    map[*types.Func]*Pkg
	Contracts  map[string]*Decl // key pkgName.Name for func decls
	SpecFuncs  map[string]*Decl // by name (global)
	Lemmas     []*Decl
	TypeInvs   map[string]*Decl // pkgName.Type
	AllDecls   []*Decl
	Problems   []string
	mutGlobals map[*types.Var]bool
	UnitBudget int // seconds of symbolic execution per unit
}

var libPkgs = []string{"SolarUtil", "LunarUtil", "ShouXingUtil", "HolidayUtil", "TaoUtil", "FotoUtil", "calendar"}

func funcKey(fd *ast.FuncDecl) string {
	if fd.Recv != nil && len(fd.Recv.List) > 0 {
		t := fd.Recv.List[0].Type
		if s, ok := t.(*ast.StarExpr); ok {
			t = s.X
		}
		if id, ok := t.(*ast.Ident); ok {
			return id.Name + "." + fd.Name.Name
		}
	}
	return fd.Name.Name
}

func loadWorld() (*World, error) {
	w := &World{Fset: token.NewFileSet(), Pkgs: map[string]*Pkg{}, Std: map[string]*types.Package{},
		FuncDecl: map[*types.Func]*ast.FuncDecl{}, FuncPkg: map[*types.Func]*Pkg{}, Contracts: map[string]*Decl{},
		SpecFuncs: map[string]*Decl{}, TypeInvs: map[string]*Decl{}}
	cfg := &packages.Config{Mode: packages.NeedName | packages.NeedFiles | packages.NeedCompiledGoFiles | packages.NeedSyntax | packages.NeedTypes |
		packages.NeedTypesInfo | packages.NeedImports | packages.NeedDeps, Dir: repoDir, BuildFlags: []string{"-tags=verif"}, Fset: w.Fset}
	var pats []string
	for _, p := range libPkgs {
		pats = append(pats, "./"+p)
	}
	pkgs, err := packages.Load(cfg, pats...)
	if err != nil {
		return nil, err
	}
	var visit func(p *packages.Package)
	seen := map[string]bool{}
	visit = func(p *packages.Package) {
		if seen[p.PkgPath] {
			return
		}
		seen[p.PkgPath] = true
		if !strings.HasPrefix(p.PkgPath, modPath) && p.Types != nil {
			w.Std[p.PkgPath] = p.Types
		}
		for _, q := range p.Imports {
			visit(q)
		}
	}
	for _, p := range pkgs {
		if len(p.Errors) > 0 {
			return nil, fmt.Errorf("package %s: %v", p.PkgPath, p.Errors)
		}
		visit(p)
		pk := &Pkg{Path: p.PkgPath, Name: p.Name, P1: p, Funcs: map[string]*ast.FuncDecl{}}
		if len(p.GoFiles) > 0 {
			pk.Dir = filepath.Dir(p.GoFiles[0])
		}
		for _, q := range p.Imports {
			if strings.HasPrefix(q.PkgPath, modPath) {
				pk.Imports = append(pk.Imports, q.PkgPath)
			}
		}
		w.Pkgs[p.PkgPath] = pk
	}
	// topological order
	done := map[string]bool{}
	var topo func(pk *Pkg)
	topo = func(pk *Pkg) {
		if done[pk.Path] {
			return
		}
		done[pk.Path] = true
		sort.Strings(pk.Imports)
		for _, i := range pk.Imports {
			if q, ok := w.Pkgs[i]; ok {
				topo(q)
			}
		}
		w.Order = append(w.Order, pk)
	}
	var paths []string
	for p := range w.Pkgs {
		paths = append(paths, p)
	}
	sort.Strings(paths)
	for _, p := range paths {
		topo(w.Pkgs[p])
	}
	// contracts
	for _, pk := range w.Order {
		cfs, _ := filepath.Glob(filepath.Join(pk.Dir, "zz_contracts*_verif.go"))
		sort.Strings(cfs)
		for _, cf := range cfs {
			ds, err := parseContractFile(cf, pk.Path, pk.Name)
			if err != nil {
				return nil, err
			}
			pk.Decls = append(pk.Decls, ds...)
			for _, d := range ds {
				w.AllDecls = append(w.AllDecls, d)
				switch d.Kind {
				case "spec":
					if _, dup := w.SpecFuncs[d.Name]; dup {
						return nil, fmt.Errorf("%s:%d: duplicate spec func %s", d.File, d.Line, d.Name)
					}
					w.SpecFuncs[d.Name] = d
				case "func":
					w.Contracts[pk.Name+"."+d.Name] = d
				case "lemma", "ghost":
					w.Lemmas = append(w.Lemmas, d)
				case "type":
					w.TypeInvs[pk.Name+"."+d.Name] = d
				}
			}
		}
	}
	// generate + recheck
	for _, pk := range w.Order {
		if err := w.recheck(pk); err != nil {
			return nil, err
		}
	}
	// sweep declarations -> synthetic safety-only contracts
	for _, pk := range w.Order {
		for _, d := range pk.Decls {
			if d.Kind != "sweep" {
				continue
			}
			for _, tn := range d.Estab {
				obj := pk.Types.Scope().Lookup(tn)
				if obj == nil {
					w.Problems = append(w.Problems, fmt.Sprintf("%s:%d: sweep: unknown type %s", d.File, d.Line, tn))
					continue
				}
				ms := types.NewMethodSet(types.NewPointer(obj.Type()))
				for i := 0; i < ms.Len(); i++ {
					f, ok := ms.At(i).Obj().(*types.Func)
					if !ok || !f.Exported() {
						continue
					}
					sig := f.Type().(*types.Signature)
					if sig.Params().Len() != 0 {
						continue
					}
					name := tn + "." + f.Name()
					if _, has := w.Contracts[pk.Name+"."+name]; has {
						// an explicit contract exists: tag it for the sweeping property as well
						cd := w.Contracts[pk.Name+"."+name]
						for _, t := range d.Tags {
							if !hasTag(cd.Tags, t) {
								cd.Tags = append(cd.Tags, t)
							}
						}
						continue
					}
					if pk.Funcs[name] == nil {
						continue
					}
					sd := &Decl{Kind: "func", Pkg: pk.Path, PkgName: pk.Name, File: d.File, Line: d.Line, Name: name, Recv: tn, Tags: d.Tags, Sweep: true, Clauses: d.Clauses}
					w.AllDecls = append(w.AllDecls, sd)
				}
			}
		}
	}
	return w, nil
}

type worldImporter struct{ w *World }

func (im worldImporter) Import(path string) (*types.Package, error) {
	if p, ok := im.w.Pkgs[path]; ok && p.Types != nil {
		return p.Types, nil
	}
	if p, ok := im.w.Std[path]; ok {
		return p, nil
	}
	return nil, fmt.Errorf("import %q not available", path)
}

func isPureType(t string) bool {
	switch strings.TrimSpace(t) {
	case "int", "bool", "float64", "string":
		return true
	}
	return false
}

func (d *Decl) paramNamesTypes() (names, typs []string) {
	if strings.TrimSpace(d.Params) == "" {
		return
	}
	// go syntax: "a int, b int" or "a, b int"
	src := "package p\nfunc f(" + d.Params + ")"
	f, err := parser.ParseFile(token.NewFileSet(), "", src, 0)
	if err != nil {
		return
	}
	fd := f.Decls[0].(*ast.FuncDecl)
	for _, fl := range fd.Type.Params.List {
		var buf bytes.Buffer
		printer.Fprint(&buf, token.NewFileSet(), fl.Type)
		for _, n := range fl.Names {
			names = append(names, n.Name)
			typs = append(typs, buf.String())
		}
	}
	return
}

func (d *Decl) isPureSpec() bool {
	_, ts := d.paramNamesTypes()
	for _, t := range ts {
		if !isPureType(t) {
			return false
		}
	}
	return isPureType(d.Results)
}

const genPrelude = `
func implies(a, b bool) bool { return !a || b }
func ite[T any](c bool, a, b T) T { if c { return a }; return b }
func old[T any](x T) T { return x }
func divf(a, b int) int { q := a / b; if (a%b != 0) && ((a < 0) != (b < 0)) { q-- }; return q }
func modf(a, b int) int { return a - b*divf(a, b) }
func assert(b bool) { if !b { panic("ghost assert failed") } }
func assume(b bool) {}
func all(lo, hi int, f func(int) bool) bool { for i := lo; i <= hi; i++ { if !f(i) { return false } }; return true }
func exists(lo, hi int, f func(int) bool) bool { for i := lo; i <= hi; i++ { if f(i) { return true } }; return false }
func llen(l *list.List) int { return l.Len() }
func lat[T any](l *list.List, i int) T { e := l.Front(); for ; i > 0; i-- { e = e.Next() }; return e.Value.(T) }
func lhas[T comparable](l *list.List, v T) bool { for e := l.Front(); e != nil; e = e.Next() { if w, ok := e.Value.(T); ok && w == v { return true } }; return false }
func rfloor(x float64) int { return int(__floor(x)) }
func __floor(x float64) float64 { i := float64(int(x)); if i > x { return i - 1 }; return i }
`

// qualify rewrites free identifiers of expr that name exported package-level objects of home into home.Ident.
func qualifyExpr(e ast.Expr, home *Pkg, params map[string]bool, specs map[string]*Decl) ast.Expr {
	var rw func(n ast.Expr) ast.Expr
	rw = func(n ast.Expr) ast.Expr {
		switch x := n.(type) {
		case *ast.Ident:
			if params[x.Name] || specs[x.Name] != nil {
				return x
			}
			if obj := home.P1.Types.Scope().Lookup(x.Name); obj != nil && obj.Exported() {
				return &ast.SelectorExpr{X: ast.NewIdent(home.Name), Sel: ast.NewIdent(x.Name)}
			}
			return x
		case *ast.BinaryExpr:
			return &ast.BinaryExpr{X: rw(x.X), Op: x.Op, Y: rw(x.Y)}
		case *ast.UnaryExpr:
			return &ast.UnaryExpr{Op: x.Op, X: rw(x.X)}
		case *ast.ParenExpr:
			return &ast.ParenExpr{X: rw(x.X)}
		case *ast.CallExpr:
			args := make([]ast.Expr, len(x.Args))
			for i, a := range x.Args {
				args[i] = rw(a)
			}
			return &ast.CallExpr{Fun: rw(x.Fun), Args: args}
		case *ast.IndexExpr:
			return &ast.IndexExpr{X: rw(x.X), Index: rw(x.Index)}
		case *ast.SelectorExpr:
			return &ast.SelectorExpr{X: rw(x.X), Sel: x.Sel}
		}
		return n
	}
	return rw(e)
}

func exprString(e ast.Node) string {
	var buf bytes.Buffer
	printer.Fprint(&buf, token.NewFileSet(), e)
	return buf.String()
}

// visible locals at a loop: name -> type string
// anchorStmt: the k-th (default first) top-level statement of fd that assigns variable name anywhere inside it.
// name may be "v" or "v#k".
func anchorStmt(fd *ast.FuncDecl, name string) ast.Stmt {
	if name == "end" {
		// the last top-level statement that is not a return
		for i := len(fd.Body.List) - 1; i >= 0; i-- {
			if _, isRet := fd.Body.List[i].(*ast.ReturnStmt); !isRet {
				return fd.Body.List[i]
			}
		}
		return nil
	}
	if strings.HasPrefix(name, "call:") {
		// the first top-level statement that calls the named function
		want := strings.TrimPrefix(name, "call:")
		for _, s := range fd.Body.List {
			hit := false
			ast.Inspect(s, func(x ast.Node) bool {
				if c, ok := x.(*ast.CallExpr); ok {
					switch f := c.Fun.(type) {
					case *ast.Ident:
						if f.Name == want {
							hit = true
						}
					case *ast.SelectorExpr:
						if f.Sel.Name == want {
							hit = true
						}
					}
				}
				return true
			})
			if hit {
				return s
			}
		}
		return nil
	}
	k := 1
	if i := strings.Index(name, "#"); i >= 0 {
		fmt.Sscan(name[i+1:], &k)
		name = name[:i]
	}
	n := 0
	for _, s := range fd.Body.List {
		hit := false
		ast.Inspect(s, func(x ast.Node) bool {
			switch a := x.(type) {
			case *ast.AssignStmt:
				for _, l := range a.Lhs {
					if id, ok := l.(*ast.Ident); ok && id.Name == name {
						hit = true
					}
					// field targets are named recv.field
					if se, ok := l.(*ast.SelectorExpr); ok {
						if id, ok := se.X.(*ast.Ident); ok && id.Name+"."+se.Sel.Name == name {
							hit = true
						}
					}
				}
			case *ast.ValueSpec:
				for _, id := range a.Names {
					if id.Name == name {
						hit = true
					}
				}
			case *ast.IncDecStmt:
				if id, ok := a.X.(*ast.Ident); ok && id.Name == name {
					hit = true
				}
			}
			return true
		})
		if hit {
			n++
			if n == k {
				return s
			}
		}
	}
	return nil
}

// localsAfter: variables visible right after a top-level statement
func (w *World) localsAfter(pk *Pkg, fd *ast.FuncDecl, s ast.Stmt) (names []string, typs []string) {
	qual := func(p *types.Package) string {
		if p == pk.P1.Types {
			return ""
		}
		return p.Name()
	}
	sc := pk.P1.TypesInfo.Scopes[fd.Type]
	if sc == nil {
		return
	}
	for _, n := range sc.Names() {
		obj := sc.Lookup(n)
		v, ok := obj.(*types.Var)
		if !ok || n == "_" {
			continue
		}
		if obj.Pos() < s.End() {
			names = append(names, n)
			typs = append(typs, types.TypeString(v.Type(), qual))
		}
	}
	return
}

func (w *World) localsAt(pk *Pkg, fd *ast.FuncDecl, at ast.Node) (names []string, typs []string) {
	info := pk.P1.TypesInfo
	qual := func(p *types.Package) string {
		if p == pk.P1.Types {
			return ""
		}
		return p.Name()
	}
	sc := info.Scopes[at]
	if sc == nil {
		sc = pk.P1.Types.Scope().Innermost(at.Pos())
	}
	seen := map[string]bool{}
	fsc := info.Scopes[fd.Type]
	for s := sc; s != nil; s = s.Parent() {
		for _, n := range s.Names() {
			if seen[n] {
				continue
			}
			obj := s.Lookup(n)
			v, ok := obj.(*types.Var)
			if !ok {
				continue
			}
			if s != sc && obj.Pos() >= at.Pos() {
				continue
			}
			seen[n] = true
			if n == "_" {
				continue
			}
			names = append(names, n)
			typs = append(typs, types.TypeString(v.Type(), qual))
		}
		if s == fsc {
			break
		}
	}
	return
}

func loopsOf(fd *ast.FuncDecl) []ast.Stmt {
	var ls []ast.Stmt
	ast.Inspect(fd.Body, func(n ast.Node) bool {
		switch n.(type) {
		case *ast.ForStmt, *ast.RangeStmt:
			ls = append(ls, n.(ast.Stmt))
		}
		return true
	})
	return ls
}

func (w *World) recheck(pk *Pkg) error {
	// re-parse real files into the shared fset
	pk.Files = nil
	for _, f := range pk.P1.CompiledGoFiles {
		af, err := parser.ParseFile(w.Fset, f, nil, parser.ParseComments)
		if err != nil {
			return err
		}
		pk.Files = append(pk.Files, af)
	}
	p1funcs := map[string]*ast.FuncDecl{}
	for _, f := range pk.P1.Syntax {
		for _, d := range f.Decls {
			if fd, ok := d.(*ast.FuncDecl); ok {
				p1funcs[funcKey(fd)] = fd
			}
		}
	}
	// imports
	imports := map[string]string{}
	for _, f := range pk.Files {
		for _, im := range f.Imports {
			name := ""
			if im.Name != nil {
				name = im.Name.Name
			}
			imports[im.Path.Value] = name
		}
	}
	if _, ok := imports[`"container/list"`]; !ok {
		imports[`"container/list"`] = ""
	}
	var sb strings.Builder
	fmt.Fprintf(&sb, "package %s\n\nimport (\n", pk.Name)
	var ips []string
	for p := range imports {
		ips = append(ips, p)
	}
	sort.Strings(ips)
	for _, p := range ips {
		fmt.Fprintf(&sb, "\t%s %s\n", imports[p], p)
	}
	fmt.Fprintf(&sb, ")\n%s\n", genPrelude)
	// spec funcs: own + pure ones of other packages (qualified)
	var specNames []string
	for n := range w.SpecFuncs {
		specNames = append(specNames, n)
	}
	sort.Strings(specNames)
	for _, n := range specNames {
		d := w.SpecFuncs[n]
		home := w.Pkgs[d.Pkg]
		if d.Pkg != pk.Path {
			if !d.isPureSpec() {
				continue
			}
			if !w.importsTransitively(pk, d.Pkg) && !w.selfContained(d, map[string]bool{}) {
				continue
			}
			// copy, qualifying identifiers of the home package
			e, err := parser.ParseExpr(d.Body)
			if err != nil {
				return fmt.Errorf("%s:%d: spec func %s: %v", d.File, d.Line, d.Name, err)
			}
			pn, _ := d.paramNamesTypes()
			pm := map[string]bool{}
			for _, x := range pn {
				pm[x] = true
			}
			needsHome := false
			q := qualifyExpr(e, home, pm, w.SpecFuncs)
			ast.Inspect(q, func(n ast.Node) bool {
				if s, ok := n.(*ast.SelectorExpr); ok {
					if id, ok := s.X.(*ast.Ident); ok && id.Name == home.Name {
						needsHome = true
					}
				}
				return true
			})
			if needsHome {
				if _, ok := imports[`"`+home.Path+`"`]; !ok {
					continue // not importable here
				}
			}
			fmt.Fprintf(&sb, "func %s(%s) %s { return %s }\n", d.Name, d.Params, d.Results, exprString(q))
			continue
		}
		fmt.Fprintf(&sb, "func %s(%s) %s { return %s }\n", d.Name, d.Params, d.Results, d.Body)
	}
	for _, d := range pk.Decls {
		if d.Kind == "gocode" {
			sb.WriteString(d.Body)
			sb.WriteString("\n")
		}
	}
	// lemma summaries L__req / L__ens (own lemmas, and pure lemmas of other packages)
	for _, d := range w.Lemmas {
		if d.Kind != "lemma" {
			continue
		}
		home := w.Pkgs[d.Pkg]
		pure := true
		_, pts := d.paramNamesTypes()
		for _, t := range pts {
			if !isPureType(t) {
				pure = false
			}
		}
		if d.Pkg != pk.Path && !pure {
			continue
		}
		if d.Pkg != pk.Path && !w.importsTransitively(pk, d.Pkg) {
			sc := true
			pn, _ := d.paramNamesTypes()
			for _, c := range d.Clauses {
				if (c.Kind == "requires" || c.Kind == "ensures") && !w.exprSelfContained(c.Text, pn, map[string]bool{}) {
					sc = false
				}
			}
			if !sc {
				continue
			}
		}
		var reqs, enss []string
		ok := true
		for _, c := range d.Clauses {
			if c.Kind != "requires" && c.Kind != "ensures" {
				continue
			}
			txt := c.Text
			if d.Pkg != pk.Path {
				e, err := parser.ParseExpr(c.Text)
				if err != nil {
					ok = false
					break
				}
				pn, _ := d.paramNamesTypes()
				pm := map[string]bool{}
				for _, x := range pn {
					pm[x] = true
				}
				txt = exprString(qualifyExpr(e, home, pm, w.SpecFuncs))
			}
			if c.Kind == "requires" {
				reqs = append(reqs, "("+txt+")")
			} else {
				enss = append(enss, "("+txt+")")
			}
		}
		if !ok {
			continue
		}
		if len(reqs) == 0 {
			reqs = []string{"true"}
		}
		if len(enss) == 0 {
			enss = []string{"true"}
		}
		fmt.Fprintf(&sb, "func %s(%s) {}\n", d.Name, d.Params)
		fmt.Fprintf(&sb, "func %s__req(%s) bool { return %s }\n", d.Name, d.Params, strings.Join(reqs, " && "))
		fmt.Fprintf(&sb, "func %s__ens(%s) bool { return %s }\n", d.Name, d.Params, strings.Join(enss, " && "))
	}
	// clauses
	cn := 0
	qual := func(p *types.Package) string {
		if p == pk.P1.Types {
			return ""
		}
		return p.Name()
	}
	for _, d := range pk.Decls {
		switch d.Kind {
		case "func":
			fd := p1funcs[d.Name]
			if fd == nil {
				w.Problems = append(w.Problems, fmt.Sprintf("%s:%d: contract for unknown function %s", d.File, d.Line, d.Name))
				continue
			}
			obj := pk.P1.TypesInfo.Defs[fd.Name].(*types.Func)
			sig := obj.Type().(*types.Signature)
			var ps []string
			if sig.Recv() != nil && sig.Recv().Name() != "" {
				ps = append(ps, sig.Recv().Name()+" "+types.TypeString(sig.Recv().Type(), qual))
			}
			for i := 0; i < sig.Params().Len(); i++ {
				p := sig.Params().At(i)
				if p.Name() == "" || p.Name() == "_" {
					continue
				}
				ps = append(ps, p.Name()+" "+types.TypeString(p.Type(), qual))
			}
			var rs []string
			if sig.Results().Len() == 1 {
				rs = append(rs, "result "+types.TypeString(sig.Results().At(0).Type(), qual))
			} else {
				for i := 0; i < sig.Results().Len(); i++ {
					rs = append(rs, fmt.Sprintf("result%d %s", i+1, types.TypeString(sig.Results().At(i).Type(), qual)))
				}
			}
			loops := loopsOf(fd)
			var gs []string
			for _, c := range d.Clauses {
				if c.Kind == "ghost" {
					gs = append(gs, c.SplitLo+" "+c.SplitHi)
				}
			}
			anchored := func(c *Clause) (string, bool) {
				as := anchorStmt(fd, c.SplitVar)
				if as == nil {
					w.Problems = append(w.Problems, fmt.Sprintf("%s:%d: %s has no top-level statement assigning %s", d.File, c.Line, d.Name, c.SplitVar))
					c.FnName = ""
					return "", false
				}
				ns, ts := w.localsAfter(pk, fd, as)
				var lp []string
				for i := range ns {
					lp = append(lp, ns[i]+" "+ts[i])
				}
				lp = append(lp, gs...)
				return strings.Join(lp, ", "), true
			}
			for _, c := range d.Clauses {
				cn++
				c.FnName = fmt.Sprintf("__c%d_%s", cn, strings.ReplaceAll(d.Name, ".", "_"))
				switch c.Kind {
				case "requires", "panics_iff":
					fmt.Fprintf(&sb, "func %s(%s) bool { return %s }\n", c.FnName, strings.Join(ps, ", "), c.Text)
				case "ensures", "derived", "defines":
					fmt.Fprintf(&sb, "func %s(%s) bool { return %s }\n", c.FnName, strings.Join(append(append(append([]string{}, ps...), gs...), rs...), ", "), c.Text)
				case "ghost":
					if lp, ok := anchored(c); ok {
						fmt.Fprintf(&sb, "func %s(%s) %s { return %s }\n", c.FnName, lp, c.SplitHi, c.Text)
					}
				case "invariant", "decreases":
					if c.Loop < 1 || c.Loop > len(loops) {
						w.Problems = append(w.Problems, fmt.Sprintf("%s:%d: %s has no loop %d", d.File, c.Line, d.Name, c.Loop))
						c.FnName = ""
						continue
					}
					ns, ts := w.localsAt(pk, fd, loops[c.Loop-1])
					var lp []string
					for i := range ns {
						lp = append(lp, ns[i]+" "+ts[i])
					}
					rt := "bool"
					if c.Kind == "decreases" {
						rt = "int"
					}
					fmt.Fprintf(&sb, "func %s(%s) %s { return %s }\n", c.FnName, strings.Join(lp, ", "), rt, c.Text)
				case "split":
					fmt.Fprintf(&sb, "func %s(%s) int { return %s }\n", c.FnName, strings.Join(append(append([]string{}, ps...), gs...), ", "), c.Text)
				case "use":
					i := strings.Index(c.Text, "(")
					if i < 0 {
						w.Problems = append(w.Problems, fmt.Sprintf("%s:%d: bad use clause", d.File, c.Line))
						c.FnName = ""
						continue
					}
					ln, la := strings.TrimSpace(c.Text[:i]), c.Text[i:]
					pl := strings.Join(ps, ", ")
					if c.SplitVar != "" {
						var ok bool
						if pl, ok = anchored(c); !ok {
							continue
						}
					}
					fmt.Fprintf(&sb, "func %s(%s) bool { return %s__ens%s }\n", c.FnName, pl, ln, la)
					fmt.Fprintf(&sb, "func %s_req(%s) bool { return %s__req%s }\n", c.FnName, pl, ln, la)
				case "hint", "cut":
					if lp, ok := anchored(c); ok {
						fmt.Fprintf(&sb, "func %s(%s) bool { return %s }\n", c.FnName, lp, c.Text)
					}
				}
			}
		case "lemma":
			for _, c := range d.Clauses {
				cn++
				c.FnName = fmt.Sprintf("__c%d_%s", cn, d.Name)
				rt := "bool"
				if c.Kind == "split" {
					rt = "int"
				}
				if c.Kind == "use" {
					i := strings.Index(c.Text, "(")
					ln, la := strings.TrimSpace(c.Text[:i]), c.Text[i:]
					fmt.Fprintf(&sb, "func %s(%s) bool { return %s__ens%s }\n", c.FnName, d.Params, ln, la)
					fmt.Fprintf(&sb, "func %s_req(%s) bool { return %s__req%s }\n", c.FnName, d.Params, ln, la)
					continue
				}
				if c.Kind == "reveal" || c.Kind == "domain" {
					c.FnName = ""
					continue
				}
				fmt.Fprintf(&sb, "func %s(%s) %s { return %s }\n", c.FnName, d.Params, rt, c.Text)
			}
		case "ghost":
			for _, c := range d.Clauses {
				cn++
				c.FnName = fmt.Sprintf("__c%d_%s", cn, d.Name)
				rt := "bool"
				if c.Kind == "split" {
					rt = "int"
				}
				fmt.Fprintf(&sb, "func %s(%s) %s { return %s }\n", c.FnName, d.Params, rt, c.Text)
			}
			fmt.Fprintf(&sb, "func %s(%s) {\n%s}\n", d.Name, d.Params, useAllLocals(d.Body))
		case "sweep":
			if d.Body != "" {
				cn++
				fn := fmt.Sprintf("__c%d_sweep_%s", cn, d.Estab[0])
				fmt.Fprintf(&sb, "func %s(self *%s) bool { return %s }\n", fn, d.Estab[0], d.Body)
				d.Clauses = []*Clause{{Kind: "requires", Text: d.Body, FnName: fn, Line: d.Line}}
			}
		case "type":
			for _, c := range d.Clauses {
				if c.Kind != "invariant" {
					continue
				}
				cn++
				c.FnName = fmt.Sprintf("__c%d_inv_%s", cn, d.Name)
				fmt.Fprintf(&sb, "func %s(self *%s) bool { return %s }\n", c.FnName, d.Name, c.Text)
			}
		}
	}
	pk.GenSrc = sb.String()
	gf, err := parser.ParseFile(w.Fset, filepath.Join(pk.Dir, "zz_spec_gen_verif.go"), pk.GenSrc, 0)
	if err != nil {
		return fmt.Errorf("generated spec file for %s does not parse: %v\n%s", pk.Name, err, numbered(pk.GenSrc))
	}
	pk.GenFile = gf
	pk.Files = append(pk.Files, gf)
	pk.Info = &types.Info{Types: map[ast.Expr]types.TypeAndValue{}, Defs: map[*ast.Ident]types.Object{}, Uses: map[*ast.Ident]types.Object{},
		Selections: map[*ast.SelectorExpr]*types.Selection{}, Scopes: map[ast.Node]*types.Scope{}, Implicits: map[ast.Node]types.Object{}, Instances: map[*ast.Ident]types.Instance{}}
	var terrs []string
	conf := types.Config{Importer: worldImporter{w}, GoVersion: "go1.21", Error: func(err error) {
		if strings.Contains(err.Error(), "imported and not used") || strings.Contains(err.Error(), "declared and not used") {
			return
		}
		terrs = append(terrs, err.Error())
	}}
	tp, _ := conf.Check(pk.Path, w.Fset, pk.Files, pk.Info)
	if len(terrs) > 0 {
		return fmt.Errorf("contract type errors in %s:\n  %s", pk.Name, strings.Join(terrs, "\n  "))
	}
	pk.Types = tp
	for _, f := range pk.Files {
		for _, d := range f.Decls {
			if fd, ok := d.(*ast.FuncDecl); ok {
				pk.Funcs[funcKey(fd)] = fd
				if o, ok := pk.Info.Defs[fd.Name].(*types.Func); ok {
					w.FuncDecl[o] = fd
					w.FuncPkg[o] = pk
				}
			}
		}
	}
	return nil
}

func numbered(s string) string {
	var sb strings.Builder
	for i, l := range strings.Split(s, "\n") {
		fmt.Fprintf(&sb, "%4d %s\n", i+1, l)
	}
	return sb.String()
}

var reShortDecl = regexp.MustCompile(`^(\s*)([A-Za-z_]\w*(?:\s*,\s*[A-Za-z_]\w*)*)\s*:=`)

// useAllLocals appends `_ = v` after every short variable declaration of a ghost body so that the body also
// compiles with the real compiler (replay), where unused variables are errors.
func useAllLocals(body string) string {
	var out []string
	for _, l := range strings.Split(body, "\n") {
		out = append(out, l)
		if m := reShortDecl.FindStringSubmatch(l); m != nil && !strings.Contains(l, "for ") && !strings.Contains(l, "if ") {
			for _, n := range strings.Split(m[2], ",") {
				n = strings.TrimSpace(n)
				if n != "_" {
					out = append(out, m[1]+"_ = "+n)
				}
			}
		}
	}
	return strings.Join(out, "\n")
}

func (w *World) importsTransitively(pk *Pkg, path string) bool {
	seen := map[string]bool{}
	var rec func(p *Pkg) bool
	rec = func(p *Pkg) bool {
		if seen[p.Path] {
			return false
		}
		seen[p.Path] = true
		for _, i := range p.Imports {
			if i == path {
				return true
			}
			if q, ok := w.Pkgs[i]; ok && rec(q) {
				return true
			}
		}
		return false
	}
	return rec(pk)
}

var preludeNames = map[string]bool{"implies": true, "ite": true, "old": true, "divf": true, "modf": true, "all": true, "exists": true, "rfloor": true,
	"float64": true, "int": true, "true": true, "false": true, "bool": true, "len": true, "nil": true}

// selfContained: the spec function's body mentions only its parameters, the prelude and other self-contained pure spec functions.
func (w *World) selfContained(d *Decl, visiting map[string]bool) bool {
	if d.Uninterp || !d.isPureSpec() {
		return false
	}
	if visiting[d.Name] {
		return true
	}
	visiting[d.Name] = true
	pn, _ := d.paramNamesTypes()
	return w.exprSelfContained(d.Body, pn, visiting)
}

func (w *World) exprSelfContained(text string, pn []string, visiting map[string]bool) bool {
	e, err := parser.ParseExpr(text)
	if err != nil {
		return false
	}
	params := map[string]bool{}
	for _, n := range pn {
		params[n] = true
	}
	ok := true
	var locals []map[string]bool
	ast.Inspect(e, func(n ast.Node) bool {
		switch y := n.(type) {
		case *ast.FuncLit:
			m := map[string]bool{}
			for _, f := range y.Type.Params.List {
				for _, nm := range f.Names {
					m[nm.Name] = true
				}
			}
			locals = append(locals, m)
		case *ast.SelectorExpr:
			ok = false
			return false
		case *ast.Ident:
			if params[y.Name] || preludeNames[y.Name] {
				return true
			}
			for _, m := range locals {
				if m[y.Name] {
					return true
				}
			}
			if sd, isSpec := w.SpecFuncs[y.Name]; isSpec {
				if !w.selfContained(sd, visiting) {
					ok = false
				}
				return true
			}
			ok = false
		}
		return true
	})
	return ok
}
