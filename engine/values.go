package main

import (
	"fmt"
	"go/types"
	"sort"
)

type Value interface{}

type IntV struct{ T *Term }
type BoolV struct{ T *Term }
type FloatV struct{ T *Term }

// StrAlt: one alternative of a finite-choice string.
type StrAlt struct {
	Cond *Term
	S    string
}

// FmtPart: literal text or a zero-padded decimal field of fixed width.
type FmtPart struct {
	Lit   string
	Num   *Term
	Width int
}

// StrCase: one guarded formatted alternative (finite choice of literals combined with numeric fields)
type StrCase struct {
	Cond  *Term
	Parts []FmtPart
}

type StrV struct {
	Alts   []StrAlt  // finite alternatives (conditions mutually exclusive and exhaustive on the current path)
	Fmt    []FmtPart // fixed-width numeric string
	Cases  []StrCase // guarded formatted alternatives (e.g. TABLE[i] + Sprintf("%d", n))
	Opaque bool
	Tag    string // provenance for opaque strings
}

// StructV: a (pointer to a) library struct modelled as a value: immutable after construction.
type StructV struct {
	T   *types.Named
	Nil *Term
	F   map[string]Value
}

// RefV: pointer to a mutable heap object of the current state.
type RefV struct {
	ID int
	T  *types.Named
}

// SliceV: a slice with a concrete capacity of modelled elements; its length is Len (nil = len(Elems)).
type SliceV struct {
	Elems []Value
	ElemT types.Type
	Len   *Term
}

func (s *SliceV) length() *Term {
	if s.Len != nil {
		return s.Len
	}
	return mkInt(int64(len(s.Elems)))
}

type MapV struct {
	Keys []string
	Vals []Value
	ValT types.Type
}

// ListV: *list.List with a concrete number of slots; slot i holds an element iff Conds[i] (nil = always).
type ListV struct {
	Elems []Value
	Conds []*Term
	Nil   bool
}

func (l *ListV) cond(i int) *Term {
	if l.Conds == nil || l.Conds[i] == nil {
		return tTrue
	}
	return l.Conds[i]
}

func (l *ListV) allPresent() bool {
	for i := range l.Elems {
		if !l.cond(i).isTrue() {
			return false
		}
	}
	return true
}

type ElemV struct {
	L   *ListV
	Idx int // == len(L.Elems) means nil
}

type NilV struct{}
type OpaqueV struct {
	T   types.Type
	Why string
	ID  int // identity of an unknown value produced by a contract call (0 = none); equal IDs denote the same value
}

var opaqueSeq int

// TupleV: multiple results
type TupleV struct{ Vs []Value }

type unsupported struct{ msg string }

func unsup(format string, a ...interface{}) {
	panic(unsupported{fmt.Sprintf(format, a...)})
}

func litStr(s string) *StrV { return &StrV{Alts: []StrAlt{{tTrue, s}}} }

func (s *StrV) isLit() (string, bool) {
	if len(s.Alts) == 1 && s.Fmt == nil && !s.Opaque && s.Cases == nil {
		return s.Alts[0].S, true
	}
	return "", false
}

// mergeValues builds ite(c, a, b) structurally.
func mergeValues(c *Term, a, b Value) Value {
	if c.isTrue() {
		return a
	}
	if c.isFalse() {
		return b
	}
	switch x := a.(type) {
	case IntV:
		if y, ok := b.(IntV); ok {
			return IntV{mkIte(c, x.T, y.T)}
		}
	case BoolV:
		if y, ok := b.(BoolV); ok {
			return BoolV{mkIte(c, x.T, y.T)}
		}
	case FloatV:
		if y, ok := b.(FloatV); ok {
			return FloatV{mkIte(c, toReal(x.T), toReal(y.T))}
		}
	case *StrV:
		if y, ok := b.(*StrV); ok {
			return mergeStr(c, x, y)
		}
	case *StructV:
		switch y := b.(type) {
		case *StructV:
			if x == y {
				return x
			}
			if x.T != y.T {
				unsup("merge of structs of different types")
			}
			r := &StructV{T: x.T, Nil: mkIte(c, x.Nil, y.Nil), F: map[string]Value{}}
			for k, v := range x.F {
				if w, ok := y.F[k]; ok {
					r.F[k] = mergeValues(c, v, w)
				}
			}
			return r
		case NilV:
			return &StructV{T: x.T, Nil: mkIte(c, x.Nil, tTrue), F: x.F}
		}
	case NilV:
		switch y := b.(type) {
		case NilV:
			return a
		case *SliceV:
			return &SliceV{ElemT: y.ElemT, Elems: y.Elems, Len: mkIte(c, mkInt(0), y.length())}
		case *StructV:
			return &StructV{T: y.T, Nil: mkIte(c, tTrue, y.Nil), F: y.F}
		case *ListV:
			if y.Nil {
				return y
			}
		case *ElemV:
			if y.Idx == len(y.L.Elems) {
				return y
			}
		}
	case RefV:
		if y, ok := b.(RefV); ok && x.ID == y.ID {
			return x
		}
		unsup("merge of distinct heap references")
	case *SliceV:
		if y, ok := b.(*SliceV); ok {
			if x == y {
				return x
			}
			n := len(x.Elems)
			if len(y.Elems) > n {
				n = len(y.Elems)
			}
			r := &SliceV{ElemT: x.ElemT, Elems: make([]Value, n)}
			for i := 0; i < n; i++ {
				switch {
				case i < len(x.Elems) && i < len(y.Elems):
					r.Elems[i] = mergeValues(c, x.Elems[i], y.Elems[i])
				case i < len(x.Elems):
					r.Elems[i] = x.Elems[i]
				default:
					r.Elems[i] = y.Elems[i]
				}
			}
			if x.Len != nil || y.Len != nil || len(x.Elems) != len(y.Elems) {
				r.Len = mkIte(c, x.length(), y.length())
			}
			return r
		}
		if _, ok := b.(NilV); ok {
			return &SliceV{ElemT: x.ElemT, Elems: x.Elems, Len: mkIte(c, x.length(), mkInt(0))}
		}
	case *ListV:
		if y, ok := b.(*ListV); ok {
			if x == y {
				return x
			}
			if x.Nil != y.Nil {
				unsup("merge of nil and non-nil list")
			}
			// positional merge: under c the list is x, otherwise y
			n := len(x.Elems)
			if len(y.Elems) > n {
				n = len(y.Elems)
			}
			r := &ListV{Nil: x.Nil, Elems: make([]Value, n), Conds: make([]*Term, n)}
			for i := 0; i < n; i++ {
				switch {
				case i < len(x.Elems) && i < len(y.Elems):
					r.Elems[i] = mergeValues(c, x.Elems[i], y.Elems[i])
					r.Conds[i] = mkIte(c, x.cond(i), y.cond(i))
				case i < len(x.Elems):
					r.Elems[i] = x.Elems[i]
					r.Conds[i] = mkAnd(c, x.cond(i))
				default:
					r.Elems[i] = y.Elems[i]
					r.Conds[i] = mkAnd(mkNot(c), y.cond(i))
				}
			}
			return r
		}
	case *ElemV:
		if y, ok := b.(*ElemV); ok {
			if x.L == y.L && x.Idx == y.Idx {
				return x
			}
			unsup("merge of distinct list cursors")
		}
	case *MapV:
		if y, ok := b.(*MapV); ok {
			if x == y {
				return x
			}
			if len(x.Keys) == len(y.Keys) {
				same := true
				for i := range x.Keys {
					if x.Keys[i] != y.Keys[i] {
						same = false
					}
				}
				if same {
					r := &MapV{Keys: x.Keys, ValT: x.ValT, Vals: make([]Value, len(x.Vals))}
					for i := range x.Vals {
						r.Vals[i] = mergeValues(c, x.Vals[i], y.Vals[i])
					}
					return r
				}
			}
			unsup("merge of maps with different keys")
		}
	case OpaqueV:
		return x
	case *BoxV:
		if y, ok := b.(*BoxV); ok {
			if x == y {
				return x
			}
			if types.Identical(x.T, y.T) {
				return &BoxV{V: mergeValues(c, x.V, y.V), T: x.T}
			}
			unsup("merge of interface values with different dynamic types (%s, %s)", x.T, y.T)
		}
	case *TupleV:
		if y, ok := b.(*TupleV); ok && len(x.Vs) == len(y.Vs) {
			r := &TupleV{Vs: make([]Value, len(x.Vs))}
			for i := range x.Vs {
				r.Vs[i] = mergeValues(c, x.Vs[i], y.Vs[i])
			}
			return r
		}
	case nil:
		if b == nil {
			return nil
		}
	}
	if _, ok := b.(OpaqueV); ok {
		return b
	}
	unsup("cannot merge values %T and %T", a, b)
	return nil
}

func mergeStr(c *Term, x, y *StrV) *StrV {
	if x == y {
		return x
	}
	if x.Opaque || y.Opaque || x.Cases != nil || y.Cases != nil {
		return &StrV{Opaque: true, Tag: "merge"}
	}
	if x.Fmt != nil || y.Fmt != nil {
		if x.Fmt != nil && y.Fmt != nil && len(x.Fmt) == len(y.Fmt) {
			r := &StrV{Fmt: make([]FmtPart, len(x.Fmt))}
			for i := range x.Fmt {
				a, b := x.Fmt[i], y.Fmt[i]
				if (a.Num == nil) != (b.Num == nil) || a.Lit != b.Lit || a.Width != b.Width {
					return &StrV{Opaque: true, Tag: "merge-fmt"}
				}
				r.Fmt[i] = a
				if a.Num != nil {
					r.Fmt[i].Num = mkIte(c, a.Num, b.Num)
				}
			}
			return r
		}
		return &StrV{Opaque: true, Tag: "merge-fmt"}
	}
	// union of alternatives, combining equal strings
	idx := map[string]int{}
	var out []StrAlt
	add := func(cond *Term, s string) {
		if cond.isFalse() {
			return
		}
		if i, ok := idx[s]; ok {
			out[i].Cond = mkOr(out[i].Cond, cond)
			return
		}
		idx[s] = len(out)
		out = append(out, StrAlt{cond, s})
	}
	for _, a := range x.Alts {
		add(mkAnd(c, a.Cond), a.S)
	}
	nc := mkNot(c)
	for _, a := range y.Alts {
		add(mkAnd(nc, a.Cond), a.S)
	}
	return &StrV{Alts: out}
}

func sortedFieldNames(m map[string]Value) []string {
	var ks []string
	for k := range m {
		ks = append(ks, k)
	}
	sort.Strings(ks)
	return ks
}
