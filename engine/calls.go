package main

import (
	"fmt"
	"go/ast"
	"go/types"
	"math/big"
	"strings"
)

var two53 = new(big.Rat).SetInt(new(big.Int).Lsh(big.NewInt(1), 53))
var eps53 = new(big.Rat).SetFrac(big.NewInt(1), new(big.Int).Lsh(big.NewInt(1), 53))
var tiny = new(big.Rat).SetFrac(big.NewInt(1), new(big.Int).Lsh(big.NewInt(1), 1075))

// dyadicExp: term value is provably in Z / 2^k (syntactically); returns k.
func dyadicExp(t *Term) (int, bool) {
	switch t.Op {
	case "const":
		if t.Sort == SInt {
			return 0, true
		}
		d := t.Rat.Denom()
		if d.BitLen() > 0 && new(big.Int).And(d, new(big.Int).Sub(d, big.NewInt(1))).Sign() == 0 {
			return d.BitLen() - 1, true
		}
		return 0, false
	case "to_real":
		return 0, true
	case "+", "-":
		a, ok1 := dyadicExp(t.Args[0])
		b, ok2 := dyadicExp(t.Args[1])
		if ok1 && ok2 {
			if a > b {
				return a, true
			}
			return b, true
		}
	case "neg":
		return dyadicExp(t.Args[0])
	case "*":
		a, ok1 := dyadicExp(t.Args[0])
		b, ok2 := dyadicExp(t.Args[1])
		if ok1 && ok2 {
			return a + b, true
		}
	case "ite":
		a, ok1 := dyadicExp(t.Args[1])
		b, ok2 := dyadicExp(t.Args[2])
		if ok1 && ok2 {
			if a > b {
				return a, true
			}
			return b, true
		}
	}
	if t.Sort == SInt {
		return 0, true
	}
	return 0, false
}

func roundConst(r *big.Rat) *big.Rat {
	f, _ := r.Float64()
	return new(big.Rat).SetFloat64(f)
}

// fround models one IEEE-754 double rounding (round to nearest) of the exact real value.
func (x *Exec) fround(exact *Term, st *State, at ast.Node) *Term {
	if x.inSpec() {
		return exact
	}
	if exact.isConst() {
		return mkRat(roundConst(exact.Rat))
	}
	if k, ok := dyadicExp(exact); ok && k <= 20 {
		// representable when |exact| < 2^(53-k): side obligation, then the operation is exact
		bound := mkRat(new(big.Rat).SetInt(new(big.Int).Lsh(big.NewInt(1), uint(53-k))))
		x.oblige("fexact", st, mkAnd(mkLt(mkNeg(bound), exact), mkLt(exact, bound)), at, "float operation is exact (dyadic operand within 53 bits)")
		return exact
	}
	return x.roundedVar(exact, st, false)
}

var two43 = new(big.Rat).SetInt(new(big.Int).Lsh(big.NewInt(1), 43))

// roundedVar: fresh real r constrained by correct rounding of `exact`:
//
//	|r - exact| <= |exact| * 2^-53  (+ 2^-1075 for a non-zero product/quotient that may underflow)
//	exact * 1024 integral and |exact| < 2^43  =>  r == exact   (such values have <= 53 significant bits)
func (x *Exec) roundedVar(exact *Term, st *State, mayUnderflow bool) *Term {
	// IEEE operations are functions of their operands: the same exact value rounds to the same double
	if x.roundCache == nil {
		x.roundCache = map[int]*Term{}
		x.roundFacts = map[int][]*Term{}
	}
	if r, ok := x.roundCache[exact.id]; ok {
		for _, f := range x.roundFacts[exact.id] {
			st.assume(f)
		}
		return r
	}
	n0 := len(st.pc)
	r := x.roundedVar1(exact, st, mayUnderflow)
	x.roundFacts[exact.id] = append([]*Term{}, st.pc[n0:]...)
	x.roundCache[exact.id] = r
	return r
}

func (x *Exec) roundedVar1(exact *Term, st *State, mayUnderflow bool) *Term {
	r := freshVar("fl", SReal)
	ab := mkAbs(exact)
	err := mkMul(mkRat(eps53), ab)
	if mayUnderflow {
		err = mkAdd(err, mkIte(mkEq(exact, mkRat(new(big.Rat))), mkRat(new(big.Rat)), mkRat(tiny)))
	}
	st.assume(mkLe(mkSub(exact, err), r))
	st.assume(mkLe(r, mkAdd(exact, err)))
	sc := mkMul(mkRat(big.NewRat(1024, 1)), exact)
	var isInt *Term
	if n, d, ok := asIntFraction(sc); ok {
		isInt = mkEq(mkFMod(n, mkBig(d)), mkInt(0))
	} else {
		isInt = mkEq(sc, toRealNoFold(mkFloor(sc)))
	}
	ex := mkImplies(mkAnd(isInt, mkLt(ab, mkRat(two43))), mkEq(r, exact))
	exactnessHyp[ex.id] = true
	st.assume(ex)
	// rounding is monotone and integers below 2^53 are representable: floor(exact) <= r <= ceil(exact)
	mono := mkImplies(mkLt(ab, mkRat(two43)), mkAnd(mkLe(toReal(mkFloor(exact)), r), mkLe(r, toReal(mkNeg(mkFloor(mkNeg(exact)))))))
	exactnessHyp[mono.id] = true
	st.assume(mono)
	return r
}

// exactnessHyp marks the "representable => exact" float facts; the discharger first tries without them
// (fewer hypotheses is sound) because they cost the solvers a floor each.
var exactnessHyp = map[int]bool{}

func toRealNoFold(t *Term) *Term { return toReal(t) }

func intValued(t *Term) (*Term, bool) {
	if t.Sort == SInt {
		return t, true
	}
	if t.Op == "to_real" {
		return t.Args[0], true
	}
	if t.isConst() && t.Rat.IsInt() {
		return mkBig(t.Rat.Num()), true
	}
	return nil, false
}

func (x *Exec) fdiv(a, b *Term, st *State, at ast.Node) *Term {
	if x.inSpec() {
		return mkRDiv(a, b)
	}
	if !b.isConst() {
		// IEEE division by zero yields Inf/NaN: outside the model
		x.oblige("divzero", st, mkNot(mkEq(b, mkRat(new(big.Rat)))), at, "float divisor != 0")
	}
	exact := mkRDiv(a, b)
	if exact.isConst() {
		return mkRat(roundConst(exact.Rat))
	}
	// division by a power of two is exact (barring underflow)
	if b.isConst() {
		inv := new(big.Rat).Inv(b.Rat)
		if _, ok := dyadicExp(mkRat(inv)); ok {
			return x.fround(mkMul(a, mkRat(inv)), st, at)
		}
	}
	r := x.roundedVar(exact, st, true)
	// an exact integer quotient of two integers below 2^53 is returned exactly
	if ai, ok := intValued(a); ok {
		if bi, ok := intValued(b); ok && bi.isConst() && bi.Int.Sign() > 0 {
			lim := mkBig(new(big.Int).Lsh(big.NewInt(1), 53))
			ex := mkImplies(mkAnd(mkEq(mkFMod(ai, bi), mkInt(0)), mkLt(mkNeg(lim), ai), mkLt(ai, lim)), mkEq(r, toReal(mkFDiv(ai, bi))))
			exactnessHyp[ex.id] = true
			st.assume(ex)
		}
	}
	return r
}

func truncReal(t *Term) *Term {
	if t.Sort == SInt {
		return t
	}
	if t.Op == "to_real" {
		return t.Args[0]
	}
	z := mkRat(new(big.Rat))
	return mkIte(mkGe(t, z), mkFloor(t), mkNeg(mkFloor(mkNeg(t))))
}

func (x *Exec) calleeOf(call *ast.CallExpr) (types.Object, ast.Expr) {
	switch f := call.Fun.(type) {
	case *ast.Ident:
		return x.info().Uses[f], nil
	case *ast.SelectorExpr:
		if sel, ok := x.info().Selections[f]; ok {
			return sel.Obj(), f.X
		}
		return x.info().Uses[f.Sel], nil
	case *ast.IndexExpr:
		// explicit instantiation of a generic helper: lat[*Solar](l, i)
		c2 := *call
		c2.Fun = f.X
		return x.calleeOf(&c2)
	case *ast.ParenExpr:
		return nil, nil
	}
	return nil, nil
}

func (x *Exec) evalCall(call *ast.CallExpr, st *State) Value {
	// conversion?
	if tv, ok := x.info().Types[call.Fun]; ok && tv.IsType() {
		return x.evalConversion(call, tv.Type, st)
	}
	obj, recvExpr := x.calleeOf(call)
	switch o := obj.(type) {
	case *types.Builtin:
		return x.evalBuiltin(o.Name(), call, st)
	case *types.Func:
		if o.Pkg() == nil {
			unsup("call of %s", o.Name())
		}
		if strings.HasPrefix(o.Pkg().Path(), modPath) {
			return x.evalModuleCall(o, recvExpr, call, st)
		}
		return x.evalStdCall(o, recvExpr, call, st)
	}
	unsup("call of %s at %s", exprString(call.Fun), x.pos(call))
	return nil
}

func (x *Exec) evalConversion(call *ast.CallExpr, to types.Type, st *State) Value {
	v := x.eval(call.Args[0], st)
	switch u := to.Underlying().(type) {
	case *types.Basic:
		switch {
		case u.Info()&types.IsInteger != 0:
			switch a := v.(type) {
			case IntV:
				return a
			case FloatV:
				t := truncReal(a.T)
				if !x.inSpec() && !t.isConst() {
					lo, hi := intRange(u)
					x.oblige("overflow", st, mkAnd(mkLe(mkBig(lo), t), mkLe(t, mkBig(hi))), call, "float to int conversion in range")
				}
				return IntV{t}
			}
		case u.Info()&types.IsFloat != 0:
			switch a := v.(type) {
			case IntV:
				if !x.inSpec() && !a.T.isConst() {
					lim := mkBig(new(big.Int).Lsh(big.NewInt(1), 53))
					x.oblige("fexact", st, mkAnd(mkLt(mkNeg(lim), a.T), mkLt(a.T, lim)), call, "int to float conversion is exact")
				}
				return FloatV{toReal(a.T)}
			case FloatV:
				return a
			}
		case u.Info()&types.IsString != 0:
			switch a := v.(type) {
			case *StrV:
				return a
			case *SliceV:
				// string([]rune)
				return x.runesToString(a)
			}
		}
	case *types.Slice:
		if b, ok := u.Elem().Underlying().(*types.Basic); ok && b.Kind() == types.Int32 {
			if s, ok := v.(*StrV); ok {
				return x.stringToRunes(s)
			}
		}
	}
	unsup("conversion of %T to %s at %s", v, to, x.pos(call))
	return nil
}

func (x *Exec) evalBuiltin(name string, call *ast.CallExpr, st *State) Value {
	switch name {
	case "len":
		v := x.eval(call.Args[0], st)
		switch a := v.(type) {
		case *SliceV:
			return IntV{a.length()}
		case *MapV:
			return IntV{mkInt(int64(len(a.Keys)))}
		case NilV:
			return IntV{mkInt(0)}
		case *StrV:
			return IntV{x.strLen(a)}
		}
		unsup("len of %T", v)
	case "new":
		t := x.info().TypeOf(call.Args[0])
		n, ok := t.(*types.Named)
		if !ok {
			unsup("new of non-named type")
		}
		s, ok := n.Underlying().(*types.Struct)
		if !ok {
			unsup("new of non-struct")
		}
		x.heapN++
		id := x.heapN
		st.heap[id] = map[string]Value{}
		for i := 0; i < s.NumFields(); i++ {
			st.setField(id, s.Field(i).Name(), x.zero(s.Field(i).Type()))
		}
		return RefV{ID: id, T: n}
	case "make":
		t := x.info().TypeOf(call.Args[0])
		switch u := t.Underlying().(type) {
		case *types.Slice:
			n := x.evalInt(call.Args[1], st)
			if !n.isConst() {
				unsup("make with symbolic length")
			}
			sv := &SliceV{ElemT: u.Elem()}
			for i := int64(0); i < n.Int.Int64(); i++ {
				sv.Elems = append(sv.Elems, x.zero(u.Elem()))
			}
			return sv
		case *types.Map:
			return &MapV{ValT: u.Elem()}
		}
		unsup("make of %s", t)
	case "panic":
		x.oblige("nopanic", st, tFalse, call, "panic reached")
		st.assume(tFalse)
		return nil
	}
	unsup("builtin %s", name)
	return nil
}

func (x *Exec) evalArgs(call *ast.CallExpr, st *State) []Value {
	var out []Value
	for _, a := range call.Args {
		out = append(out, x.eval(a, st))
	}
	return out
}

func (x *Exec) evalModuleCall(o *types.Func, recvExpr ast.Expr, call *ast.CallExpr, st *State) Value {
	pk := x.w.FuncPkg[o]
	fd := x.w.FuncDecl[o]
	// generated helpers
	if pk != nil && fd != nil && isGenFile(x.w, pk, fd) {
		switch o.Name() {
		case "implies":
			a := x.evalBool(call.Args[0], st)
			if a.isFalse() {
				return BoolV{tTrue}
			}
			n := len(st.pc)
			st.pc = append(st.pc, a)
			b := x.evalBool(call.Args[1], st)
			st.pc = st.pc[:n]
			return BoolV{mkImplies(a, b)}
		case "ite":
			c := x.evalBool(call.Args[0], st)
			if c.isTrue() {
				return x.eval(call.Args[1], st)
			}
			if c.isFalse() {
				return x.eval(call.Args[2], st)
			}
			return mergeValues(c, x.eval(call.Args[1], st), x.eval(call.Args[2], st))
		case "old":
			if x.entry == nil {
				return x.eval(call.Args[0], st)
			}
			es := x.entry.clone()
			// locals that did not exist at entry are taken from the current state
			for k, v := range st.vars {
				if _, ok := es.vars[k]; !ok {
					es.vars[k] = v
				}
			}
			es.pc = st.pc
			return x.eval(call.Args[0], es)
		case "divf":
			return IntV{mkFDiv(x.evalInt(call.Args[0], st), x.evalInt(call.Args[1], st))}
		case "modf":
			return IntV{mkFMod(x.evalInt(call.Args[0], st), x.evalInt(call.Args[1], st))}
		case "all", "exists":
			lo := x.evalInt(call.Args[0], st)
			hi := x.evalInt(call.Args[1], st)
			fl, ok := call.Args[2].(*ast.FuncLit)
			if !ok || !lo.isConst() || !hi.isConst() {
				unsup("%s needs constant bounds and a function literal", o.Name())
			}
			if len(fl.Body.List) != 1 {
				unsup("%s body must be a single return", o.Name())
			}
			ret, ok := fl.Body.List[0].(*ast.ReturnStmt)
			if !ok || len(ret.Results) != 1 {
				unsup("%s body must be a single return", o.Name())
			}
			pv, _ := x.info().Defs[fl.Type.Params.List[0].Names[0]].(*types.Var)
			var parts []*Term
			for k := lo.Int.Int64(); k <= hi.Int.Int64(); k++ {
				st.vars[pv] = IntV{mkInt(k)}
				parts = append(parts, x.evalBool(ret.Results[0], st))
			}
			delete(st.vars, pv)
			if o.Name() == "all" {
				return BoolV{mkAnd(parts...)}
			}
			return BoolV{mkOr(parts...)}
		case "llen":
			l, ok := x.eval(call.Args[0], st).(*ListV)
			if !ok {
				unsup("llen of non-list")
			}
			n := mkInt(0)
			for i := range l.Elems {
				n = mkAdd(n, mkIte(l.cond(i), mkInt(1), mkInt(0)))
			}
			return IntV{n}
		case "lat":
			l, ok := x.eval(call.Args[0], st).(*ListV)
			if !ok {
				unsup("lat of non-list")
			}
			idx := x.evalInt(call.Args[1], st)
			if !l.allPresent() {
				// slots 0..k unconditionally present: the k-th element is slot k
				if idx.isConst() {
					k := int(idx.Int.Int64())
					ok := k >= 0 && k < len(l.Elems)
					if ok {
						var cs []*Term
						for i := 0; i <= k; i++ {
							cs = append(cs, l.cond(i))
						}
						sm := x.specMode
						x.specMode = 0
						gu := x.ghostUnit
						x.ghostUnit = false
						x.oblige("assert", st, mkAnd(cs...), call, "lat: the list has at least "+fmt.Sprint(k+1)+" elements")
						x.specMode = sm
						x.ghostUnit = gu
						st.assume(mkAnd(cs...))
					}
					if ok {
						if b, isB := l.Elems[k].(*BoxV); isB {
							return b.V
						}
						return l.Elems[k]
					}
				}
				unsup("lat on a list with conditionally present elements")
			}
			var elems []Value
			for _, e := range l.Elems {
				if b, ok := e.(*BoxV); ok {
					elems = append(elems, b.V)
				} else {
					elems = append(elems, e)
				}
			}
			if len(elems) == 0 {
				unsup("lat on empty list")
			}
			return x.selectElem(elems, idx, nil)
		case "lhas":
			l, ok := x.eval(call.Args[0], st).(*ListV)
			if !ok {
				unsup("lhas of non-list")
			}
			v := x.eval(call.Args[1], st)
			res := tFalse
			for i, e := range l.Elems {
				ev := e
				if b, ok := e.(*BoxV); ok {
					ev = b.V
				}
				res = mkOr(res, mkAnd(l.cond(i), x.valuesEqual(ev, v, st)))
			}
			return BoolV{res}
		case "rfloor":
			v := x.eval(call.Args[0], st)
			switch a := v.(type) {
			case FloatV:
				return IntV{mkFloor(a.T)}
			case IntV:
				return a
			}
		case "assert":
			t := x.evalBool(call.Args[0], st)
			sm := x.specMode
			x.specMode = 0
			x.oblige("assert", st, t, call, "assert "+exprString(call.Args[0]))
			x.specMode = sm
			st.assume(t)
			return nil
		case "assume":
			t := x.evalBool(call.Args[0], st)
			st.assume(t)
			x.assumed = append(x.assumed, exprString(call.Args[0]))
			return nil
		}
		// lemma application inside ghost code: prove its requires, assume its ensures
		if ld := x.w.lemmaByName(o.Name()); ld != nil {
			args := x.evalArgs(call, st)
			req := pk.Funcs[o.Name()+"__req"]
			ens := pk.Funcs[o.Name()+"__ens"]
			if req == nil || ens == nil {
				unsup("lemma %s is not callable from package %s", o.Name(), pk.Name)
			}
			x.specMode++
			rv := x.inlineCall(pk, req, args, st)
			x.specMode--
			x.oblige("lemma-pre", st, rv.(BoolV).T, call, "requires of lemma instance "+exprString(call))
			x.specMode++
			ev := x.inlineCall(pk, ens, args, st)
			x.specMode--
			st.assume(ev.(BoolV).T)
			x.usedLemmas[o.Name()] = true
			return nil
		}
		// spec function
		if d, ok := x.w.SpecFuncs[o.Name()]; ok {
			args := x.evalArgs(call, st)
			if d.isPureSpec() {
				if t, ok := x.specApp(d, args); ok {
					return t
				}
			}
			x.specMode++
			defer func() { x.specMode-- }()
			return x.inlineCall(pk, fd, args, st)
		}
	}
	var args []Value
	if recvExpr != nil {
		args = append(args, x.eval(recvExpr, st))
	}
	args = append(args, x.evalArgs(call, st)...)
	if fd == nil {
		unsup("no source for %s", o.FullName())
	}
	key := pk.Name + "." + funcKey(fd)
	if d, ok := x.w.Contracts[key]; ok && !(len(x.frames) == 1 && x.top().fn == fd) {
		r := x.contractCall(o, d, args, st, call)
		if _, out := r.(outsideDomain); !out {
			x.callees[key] = true
			return r
		}
	}
	if recvExpr != nil {
		x.requireNonNilIfDeref(args[0], st, call)
	}
	x.summarised[key] = true
	return x.inlineCall(pk, fd, args, st)
}

func (x *Exec) requireNonNilIfDeref(v Value, st *State, at ast.Node) {}

func isGenFile(w *World, pk *Pkg, fd *ast.FuncDecl) bool {
	return pk.GenFile != nil && fd.Pos() >= pk.GenFile.Pos() && fd.End() <= pk.GenFile.End()
}

// specApp: application of a pure spec function as an SMT function symbol
func (x *Exec) specApp(d *Decl, args []Value) (Value, bool) {
	var ts []*Term
	for _, a := range args {
		switch v := a.(type) {
		case IntV:
			ts = append(ts, v.T)
		case BoolV:
			ts = append(ts, v.T)
		case FloatV:
			ts = append(ts, toReal(v.T))
		default:
			return nil, false
		}
	}
	switch d.Results {
	case "int":
		return IntV{mkApp(d.Name, SInt, ts...)}, true
	case "bool":
		return BoolV{mkApp(d.Name, SBool, ts...)}, true
	case "float64":
		return FloatV{mkApp(d.Name, SReal, ts...)}, true
	}
	return nil, false
}

func pkgPathOf(o *types.Func) string {
	if o.Pkg() == nil {
		return ""
	}
	return o.Pkg().Path()
}

func (x *Exec) evalStdCall(o *types.Func, recvExpr ast.Expr, call *ast.CallExpr, st *State) Value {
	full := o.FullName()
	x.external[full] = true
	switch full {
	case "math.Ceil":
		v := x.eval(call.Args[0], st).(FloatV)
		return FloatV{toReal(mkNeg(mkFloor(mkNeg(v.T))))}
	case "math.Floor":
		v := x.eval(call.Args[0], st).(FloatV)
		return FloatV{toReal(mkFloor(v.T))}
	case "math.Round":
		v := x.eval(call.Args[0], st).(FloatV)
		half := mkRat(big.NewRat(1, 2))
		z := mkRat(new(big.Rat))
		return FloatV{toReal(mkIte(mkGe(v.T, z), mkFloor(mkAdd(v.T, half)), mkNeg(mkFloor(mkAdd(mkNeg(v.T), half)))))}
	case "math.Abs":
		v := x.eval(call.Args[0], st).(FloatV)
		return FloatV{mkAbs(v.T)}
	case "fmt.Sprintf":
		return x.sprintf(call, st)
	case "fmt.Sprint":
		return &StrV{Opaque: true, Tag: "Sprint"}
	case "strings.Compare":
		a := x.evalStr(call.Args[0], st)
		b := x.evalStr(call.Args[1], st)
		return IntV{x.strCompare(a, b, st)}
	case "strings.Contains", "strings.HasPrefix", "strings.HasSuffix", "strings.Index", "strings.LastIndex", "strings.Replace", "strings.ToUpper", "strings.Split", "strings.EqualFold":
		return x.stringsFn(o.Name(), call, st)
	case "container/list.New":
		return &ListV{}
	case "(*container/list.List).PushBack", "(*container/list.List).PushFront":
		l := x.eval(recvExpr, st)
		lv, ok := l.(*ListV)
		if !ok {
			unsup("PushBack on %T", l)
		}
		x.requireListNonNil(lv, st, call)
		arg := x.eval(call.Args[0], st)
		bx := x.box(arg, x.info().TypeOf(call.Args[0]), st)
		n := &ListV{}
		conds := make([]*Term, len(lv.Elems))
		for i := range lv.Elems {
			conds[i] = lv.cond(i)
		}
		if o.Name() == "PushBack" {
			n.Elems = append(append([]Value{}, lv.Elems...), bx)
			n.Conds = append(conds, tTrue)
		} else {
			n.Elems = append([]Value{bx}, lv.Elems...)
			n.Conds = append([]*Term{tTrue}, conds...)
		}
		x.assignTo(recvExpr, n, st)
		return OpaqueV{Why: "list element"}
	case "(*container/list.List).Front":
		l := x.eval(recvExpr, st)
		lv, ok := l.(*ListV)
		if !ok {
			unsup("Front on %T", l)
		}
		x.requireListNonNil(lv, st, call)
		if !lv.allPresent() {
			unsup("Front() on a list with conditionally present elements outside the for-each pattern")
		}
		return &ElemV{L: lv, Idx: 0}
	case "(*container/list.List).Back":
		l := x.eval(recvExpr, st)
		lv, ok := l.(*ListV)
		if !ok {
			unsup("Back on %T", l)
		}
		x.requireListNonNil(lv, st, call)
		if !lv.allPresent() {
			unsup("Back() on a list with conditionally present elements")
		}
		if len(lv.Elems) == 0 {
			return &ElemV{L: lv, Idx: 0}
		}
		return &ElemV{L: lv, Idx: len(lv.Elems) - 1}
	case "(*container/list.List).Len":
		l := x.eval(recvExpr, st)
		lv, ok := l.(*ListV)
		if !ok {
			unsup("Len on %T", l)
		}
		n := mkInt(0)
		for i := range lv.Elems {
			n = mkAdd(n, mkIte(lv.cond(i), mkInt(1), mkInt(0)))
		}
		return IntV{n}
	case "(*container/list.Element).Next":
		e := x.eval(recvExpr, st)
		ev, ok := e.(*ElemV)
		if !ok {
			unsup("Next on %T", e)
		}
		if ev.Idx >= len(ev.L.Elems) {
			x.oblige("nil", st, tFalse, call, "Next on nil element")
			st.assume(tFalse)
			return ev
		}
		return &ElemV{L: ev.L, Idx: ev.Idx + 1}
	case "(*container/list.Element).Prev":
		e := x.eval(recvExpr, st)
		ev, ok := e.(*ElemV)
		if !ok {
			unsup("Prev on %T", e)
		}
		if ev.Idx == 0 {
			return &ElemV{L: ev.L, Idx: len(ev.L.Elems)}
		}
		return &ElemV{L: ev.L, Idx: ev.Idx - 1}
	case "(*sync.Mutex).Lock", "(*sync.Mutex).Unlock":
		return nil
	}
	unsup("external function %s is not modelled (at %s)", full, x.pos(call))
	return nil
}

func (x *Exec) requireListNonNil(l *ListV, st *State, at ast.Node) {
	if l.Nil {
		x.oblige("nil", st, tFalse, at, "nil list")
		st.assume(tFalse)
	}
}

func (x *Exec) box(v Value, static types.Type, st *State) Value {
	if b, ok := v.(*BoxV); ok {
		return b
	}
	return &BoxV{V: x.freeze(v, st), T: static}
}

func (x *Exec) evalStr(e ast.Expr, st *State) *StrV {
	v := x.eval(e, st)
	s, ok := v.(*StrV)
	if !ok {
		unsup("expected string, got %T at %s", v, x.pos(e))
	}
	return s
}

var _ = fmt.Sprint

// sterbenz: for doubles a, b with b/2 <= a <= 2b the difference a-b is exact.
func (x *Exec) sterbenz(a, b, r *Term, st *State) {
	if x.inSpec() || r.Op != "var" {
		return
	}
	two := mkRat(big.NewRat(2, 1))
	z := mkRat(new(big.Rat))
	cond := mkAnd(mkLe(z, b), mkLe(b, mkMul(two, a)), mkLe(a, mkMul(two, b)))
	st.assume(mkImplies(cond, mkEq(r, mkSub(a, b))))
}
