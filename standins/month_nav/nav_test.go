package calendar

// Bounded stand-in for C06 (month navigation; well-formedness of lunar years). Executed, not proved.

import (
	"fmt"
	"os"
	"testing"
)

func TestStandinMonthNav(t *testing.T) {
	evals, fails := 0, 0
	expect := func(ok bool, format string, a ...interface{}) {
		evals++
		if !ok {
			fails++
			if fails <= 2000 {
				fmt.Println("STANDIN-FAIL " + fmt.Sprintf(format, a...))
			}
		}
	}
	thorough := os.Getenv("VERIF_TIER") == "thorough"
	same := func(a, b *LunarMonth) bool {
		return a != nil && b != nil && a.GetYear() == b.GetYear() && a.GetMonth() == b.GetMonth() && a.GetDayCount() == b.GetDayCount() && a.GetFirstJulianDay() == b.GetFirstJulianDay()
	}
	reform := func(y int) bool { return (y >= 8 && y <= 23) || (y >= 236 && y <= 240) }
	offsets := []int{1, 2, 3, 11, 12, 13, 14, 25, 37}
	for y := 1; y <= 9998; y++ {
		ly := NewLunarYear(y)
		// ---- well-formedness of the lunar year (statement of C06), outside the two reform eras
		if !reform(y) {
			ms := ly.GetMonthsInYear()
			n := ms.Len()
			expect(n == 12 || n == 13, "lunar year %d has %d months", y, n)
			leaps, days, prevNum, prevEnd := 0, 0, 0, 0.0
			i := 0
			for e := ms.Front(); e != nil; e = e.Next() {
				m := e.Value.(*LunarMonth)
				num := m.GetMonth()
				if num < 0 {
					leaps++
					expect(-num == prevNum, "lunar year %d: leap month %d does not follow month %d directly (previous is %d)", y, -num, -num, prevNum)
				} else {
					expect(num == prevNum+1 || (i == 0 && num == 1), "lunar year %d: month %d follows month %d", y, num, prevNum)
					prevNum = num
				}
				expect(m.GetDayCount() == 29 || m.GetDayCount() == 30, "lunar year %d month %d has %d days", y, num, m.GetDayCount())
				if i > 0 {
					expect(m.GetFirstJulianDay() == prevEnd, "lunar year %d month %d does not start the day after the previous month ends", y, num)
				}
				prevEnd = m.GetFirstJulianDay() + float64(m.GetDayCount())
				days += m.GetDayCount()
				i++
			}
			expect(prevNum == 12, "lunar year %d ends with month %d", y, prevNum)
			expect(leaps <= 1 && (leaps == 1) == (n == 13), "lunar year %d: %d leap months among %d months", y, leaps, n)
			expect((n == 12 && days >= 353 && days <= 355) || (n == 13 && days >= 383 && days <= 385), "lunar year %d has %d days in %d months", y, days, n)
			expect(ly.GetDayCount() == days, "lunar year %d: GetDayCount %d, table %d", y, ly.GetDayCount(), days)
			lm := 0
			for e := ms.Front(); e != nil; e = e.Next() {
				if e.Value.(*LunarMonth).IsLeap() {
					lm = -e.Value.(*LunarMonth).GetMonth()
				}
			}
			expect(ly.GetLeapMonth() == lm, "lunar year %d: GetLeapMonth %d, table %d", y, ly.GetLeapMonth(), lm)
			// New Year's Eve is followed by day 1 of month 1 of the next year
			if y <= 9997 && !reform(y+1) {
				last := ms.Back().Value.(*LunarMonth)
				nx := last.Next(1)
				expect(nx != nil && nx.GetYear() == y+1 && nx.GetMonth() == 1 && nx.GetFirstJulianDay() == last.GetFirstJulianDay()+float64(last.GetDayCount()), "lunar year %d: the month after its last month is not month 1 of %d", y, y+1)
			}
		}
		// ---- navigation
		if !thorough && y%23 != 0 && !(y >= 6 && y <= 25) && !(y >= 234 && y <= 242) && y > 3 && y < 9996 {
			continue
		}
		if y < 3 || y > 9995 {
			continue
		}
		for e := NewLunarYear(y).GetMonthsInYear().Front(); e != nil; e = e.Next() {
			m := e.Value.(*LunarMonth)
			a := m.Next(1)
			expect(a != nil && same(a.Next(-1), m), "%d-%d: Next(1).Next(-1) does not return to the start", m.GetYear(), m.GetMonth())
			b := m.Next(-1)
			expect(b != nil && same(b.Next(1), m), "%d-%d: Next(-1).Next(1) does not return to the start", m.GetYear(), m.GetMonth())
			expect(same(m.Next(0), m), "%d-%d: Next(0) is not the month itself", m.GetYear(), m.GetMonth())
			for _, n := range offsets {
				f := m
				for k := 0; k < n && f != nil; k++ {
					f = f.Next(1)
				}
				expect(same(m.Next(n), f), "%d-%d: Next(%d) differs from %d single steps", m.GetYear(), m.GetMonth(), n, n)
				g := m
				for k := 0; k < n && g != nil; k++ {
					g = g.Next(-1)
				}
				expect(same(m.Next(-n), g), "%d-%d: Next(%d) differs from %d single steps back", m.GetYear(), m.GetMonth(), -n, n)
			}
		}
	}
	fmt.Println("STANDIN-EVAL", evals)
	fmt.Println("STANDIN-DONE")
}
