package calendar

// Bounded stand-in for the year-star composition and the day star of C16. Executed, not proved.

import (
	"fmt"
	"os"
	"testing"
)

func nsMod(a, b int) int { return ((a % b) + b) % b }

func TestStandinNineStar(t *testing.T) {
	evals, fails := 0, 0
	expect := func(ok bool, format string, a ...interface{}) {
		evals++
		if !ok {
			fails++
			if fails <= 20 {
				fmt.Println("STANDIN-FAIL " + fmt.Sprintf(format, a...))
			}
		}
	}
	thorough := os.Getenv("VERIF_TIER") == "thorough"
	for y := 2; y <= 9998; y++ {
		if !thorough && y%37 != 0 && !(y <= 30) && !(y >= 230 && y <= 245) && !(y >= 1580 && y <= 1585) && !(y >= 2020 && y <= 2030) {
			continue
		}
		first := NewSolar(y, 1, 1, 12, 0, 0)
		table := first.GetLunar().GetJieQiTable()
		lichun := table["立春"]
		// nearest jiazi day to a solstice: jdn - idx if idx <= 29 else jdn + 60 - idx
		near := func(s *Solar) int {
			j := int(NewSolar(s.GetYear(), s.GetMonth(), s.GetDay(), 12, 0, 0).GetJulianDay())
			idx := nsMod(j-11, 60)
			if idx <= 29 {
				return j - idx
			}
			return j + 60 - idx
		}
		a0, d0, a1 := near(table["冬至"]), near(table["夏至"]), near(table["DONG_ZHI"])
		var prev *Lunar
		for s := first; s.GetYear() == y; s = s.NextDay(1) {
			moments := []*Solar{s}
			if s.GetMonth() == lichun.GetMonth() && s.GetDay() == lichun.GetDay() {
				secs := lichun.GetHour()*3600 + lichun.GetMinute()*60 + lichun.GetSecond()
				for _, off := range []int{-1, 0, 1} {
					v := secs + off
					if v >= 0 && v < 86400 {
						moments = append(moments, NewSolar(y, s.GetMonth(), s.GetDay(), v/3600, v%3600/60, v%60))
					}
				}
			}
			for _, m := range moments {
				l := m.GetLunar()
				if l.GetYear() > y {
					continue // lunar year ahead of the civil year: outside the specification of the Lichun-based pillars
				}
				py1 := l.GetYear()
				py2 := y
				if m.ToYmd() < lichun.ToYmd() {
					py2 = y - 1
				}
				py3 := y
				if m.ToYmdHms() < lichun.ToYmdHms() {
					py3 = y - 1
				}
				expect(l.GetYearNineStarBySect(1).GetIndex() == nsMod(2026-py1, 9), "%s year star sect 1 = %d, rule %d", m.ToYmdHms(), l.GetYearNineStarBySect(1).GetIndex(), nsMod(2026-py1, 9))
				expect(l.GetYearNineStarBySect(2).GetIndex() == nsMod(2026-py2, 9), "%s year star sect 2 = %d, rule %d", m.ToYmdHms(), l.GetYearNineStarBySect(2).GetIndex(), nsMod(2026-py2, 9))
				expect(l.GetYearNineStarBySect(3).GetIndex() == nsMod(2026-py3, 9), "%s year star sect 3 = %d, rule %d", m.ToYmdHms(), l.GetYearNineStarBySect(3).GetIndex(), nsMod(2026-py3, 9))
			}
			l := s.GetLunar()
			j := int(s.GetJulianDay())
			ds := l.GetDayNineStar().GetIndex()
			expect(ds >= 0 && ds <= 8, "%s day star %d out of range", s.ToYmd(), ds)
			switch {
			case j >= a0 && j < d0:
				expect(ds == nsMod(j-a0, 9), "%s day star %d, ascending rule %d", s.ToYmd(), ds, nsMod(j-a0, 9))
			case j >= d0 && j < a1:
				expect(ds == 8-nsMod(j-d0, 9), "%s day star %d, descending rule %d", s.ToYmd(), ds, 8-nsMod(j-d0, 9))
			case j >= a1:
				expect(ds == nsMod(j-a1, 9), "%s day star %d, ascending rule %d", s.ToYmd(), ds, nsMod(j-a1, 9))
			default:
				if prev != nil { // before the winter-solstice jiazi day: still descending by one per day
					expect(ds == nsMod(prev.GetDayNineStar().GetIndex()-1, 9), "%s day star %d does not step down from %d", s.ToYmd(), ds, prev.GetDayNineStar().GetIndex())
				}
			}
			prev = l
		}
	}
	fmt.Println("STANDIN-EVAL", evals)
	fmt.Println("STANDIN-DONE")
}
