package HolidayUtil

// Bounded stand-in for C14 (views of one record set; fix-ups). Executed, not proved.
// The record view is the sequence of 18-byte chunks of dataInUse: day(8) nameIndex(1) work(1) target(8).

import (
	"container/list"
	"fmt"
	"math/rand"
	"os"
	"strconv"
	"strings"
	"testing"
)

type rec struct {
	day, name, target string
	work              bool
}

func recordsOf(data string) []rec {
	var out []rec
	for i := 0; i+size <= len(data); i += size {
		s := data[i : i+size]
		d, t := s[0:8], s[10:18]
		out = append(out, rec{d[0:4] + "-" + d[4:6] + "-" + d[6:8], namesInUse[s[8]-'0'], t[0:4] + "-" + t[4:6] + "-" + t[6:8], s[9] == '0'})
	}
	return out
}

func listRecs(l *list.List) []rec {
	var out []rec
	for e := l.Front(); e != nil; e = e.Next() {
		h := e.Value.(*Holiday)
		out = append(out, rec{h.GetDay(), h.GetName(), h.GetTarget(), h.IsWork()})
	}
	return out
}

func sameRecs(a, b []rec) bool {
	if len(a) != len(b) {
		return false
	}
	for i := range a {
		if a[i] != b[i] {
			return false
		}
	}
	return true
}

func filter(rs []rec, f func(rec) bool) []rec {
	var out []rec
	for _, r := range rs {
		if f(r) {
			out = append(out, r)
		}
	}
	return out
}

var evals, fails int

func expect(ok bool, format string, a ...interface{}) {
	evals++
	if !ok {
		fails++
		if fails <= 20 {
			fmt.Println("STANDIN-FAIL " + fmt.Sprintf(format, a...))
		}
	}
}

func checkViews(tag string) {
	rs := recordsOf(dataInUse)
	if len(dataInUse)%size != 0 {
		expect(false, "%s: data length %d is not a multiple of %d", tag, len(dataInUse), size)
	}
	lastYear := 2001
	for _, r := range rs {
		y, _ := strconv.Atoi(r.day[0:4])
		if y > lastYear {
			lastYear = y
		}
	}
	dim := []int{31, 29, 31, 30, 31, 30, 31, 31, 30, 31, 30, 31}
	for y := 2001; y <= lastYear+1; y++ {
		ys := fmt.Sprintf("%04d", y)
		want := filter(rs, func(r rec) bool { return strings.HasPrefix(r.day, ys+"-") })
		got := listRecs(GetHolidaysByYear(y))
		expect(sameRecs(got, want), "%s: by-year view of %d has %d records, the record set has %d", tag, y, len(got), len(want))
		for m := 1; m <= 12; m++ {
			ms := fmt.Sprintf("%04d-%02d", y, m)
			wantM := filter(rs, func(r rec) bool { return strings.HasPrefix(r.day, ms+"-") })
			gotM := listRecs(GetHolidaysByYm(y, m))
			expect(sameRecs(gotM, wantM), "%s: by-month view of %s has %d records, the record set has %d", tag, ms, len(gotM), len(wantM))
			for d := 1; d <= dim[m-1]; d++ {
				ds := fmt.Sprintf("%04d-%02d-%02d", y, m, d)
				wantD := filter(rs, func(r rec) bool { return r.day == ds })
				h := GetHolidayByYmd(y, m, d)
				if len(wantD) == 0 {
					expect(h == nil, "%s: %s has no record but GetHolidayByYmd returns one", tag, ds)
				} else {
					expect(h != nil && (rec{h.GetDay(), h.GetName(), h.GetTarget(), h.IsWork()}) == wantD[0], "%s: by-day view of %s differs from the record", tag, ds)
				}
				h2 := GetHoliday(ds)
				expect((h == nil) == (h2 == nil), "%s: GetHoliday(%q) and GetHolidayByYmd disagree", tag, ds)
				wantT := filter(rs, func(r rec) bool { return r.target == ds })
				gotT := listRecs(GetHolidaysByTargetYmd(y, m, d))
				expect(sameRecs(gotT, wantT), "%s: by-target view of %s has %d records, the record set has %d", tag, ds, len(gotT), len(wantT))
			}
		}
	}
}

func TestStandinHolidayViews(t *testing.T) {
	checkViews("shipped data")
	// fix-ups: add, replace, remove; all other records unchanged; state restored afterwards
	seed, _ := strconv.ParseInt(os.Getenv("VERIF_SEED"), 10, 64)
	rng := rand.New(rand.NewSource(seed + 17))
	saveData, saveNames := dataInUse, namesInUse
	for round := 0; round < 60; round++ {
		before := recordsOf(dataInUse)
		kind := round % 3
		var seg string
		var want []rec
		switch kind {
		case 0: // add a record for a day without one (a far future year keeps it unique)
			y := 2090 + rng.Intn(5)
			m := 1 + rng.Intn(12)
			d := 1 + rng.Intn(28)
			day := fmt.Sprintf("%04d%02d%02d", y, m, d)
			if GetHoliday(day) != nil {
				continue
			}
			seg = day + fmt.Sprintf("%d%d", rng.Intn(len(namesInUse)), rng.Intn(2)) + fmt.Sprintf("%04d%02d%02d", y, m, 1)
			want = append(append([]rec{}, before...), recordsOf(seg)...)
		case 1: // replace an existing record
			i := rng.Intn(len(before))
			day := strings.Replace(before[i].day, "-", "", -1)
			seg = day + fmt.Sprintf("%d%d", rng.Intn(len(namesInUse)), rng.Intn(2)) + strings.Replace(before[i].target, "-", "", -1)
			want = append([]rec{}, before...)
			first := -1
			for k, r := range before {
				if r.day == before[i].day {
					first = k
					break
				}
			}
			want[first] = recordsOf(seg)[0]
		case 2: // remove an existing record
			i := rng.Intn(len(before))
			day := strings.Replace(before[i].day, "-", "", -1)
			seg = day + "~" + "0" + strings.Replace(before[i].target, "-", "", -1)
			first := -1
			for k, r := range before {
				if r.day == before[i].day {
					first = k
					break
				}
			}
			want = append(append([]rec{}, before[:first]...), before[first+1:]...)
		}
		Fix(nil, seg)
		after := recordsOf(dataInUse)
		expect(sameRecs(after, want), "fix-up %q (kind %d): record set after the fix is not the expected one (%d records, expected %d)", seg, kind, len(after), len(want))
		if round%20 == 19 {
			checkViews(fmt.Sprintf("after fix-up round %d", round))
		}
	}
	dataInUse, namesInUse = saveData, saveNames
	fmt.Println("STANDIN-EVAL", evals)
	fmt.Println("STANDIN-DONE")
}
