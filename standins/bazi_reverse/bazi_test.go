package calendar

// Bounded stand-in for C10 (eight-character reverse lookup). Executed, not proved.

import (
	"fmt"
	"math/rand"
	"os"
	"strconv"
	"testing"
	"time"
)

func slotStartJdnSec(s *Solar) int {
	// seconds (since an arbitrary epoch) of the start of the two-hour slot containing s; the rat slot starts at 23:00
	days := s.Subtract(NewSolarFromYmd(1, 1, 1))
	h := s.GetHour()
	switch {
	case h == 23:
		return days*86400 + 23*3600
	case h == 0:
		return (days-1)*86400 + 23*3600
	default:
		return days*86400 + (2*((h+1)/2)-1)*3600
	}
}

func TestStandinBaziReverse(t *testing.T) {
	evals, fails := 0, 0
	expect := func(ok bool, format string, a ...interface{}) {
		evals++
		if !ok {
			fails++
			if fails <= 20 {
				fmt.Println("STANDIN-FAIL " + fmt.Sprintf(format, a...))
			}
		}
	}
	thorough := os.Getenv("VERIF_TIER") == "thorough"
	seed, _ := strconv.ParseInt(os.Getenv("VERIF_SEED"), 10, 64)
	rng := rand.New(rand.NewSource(seed + 11))
	thisYear := time.Now().Local().Year()
	bases := []int{1900, 1600, 1}
	check := func(s *Solar, sect int, base int) {
		l := s.GetLunar()
		ec := l.GetEightChar()
		ec.SetSect(sect)
		yg, mg, dg, tg := ec.GetYear(), ec.GetMonth(), ec.GetDay(), ec.GetTime()
		lst := ListSolarFromBaZiBySectAndBaseYear(yg, mg, dg, tg, sect, base)
		found := false
		var prev *Solar
		for e := lst.Front(); e != nil; e = e.Next() {
			r := e.Value.(*Solar)
			if slotStartJdnSec(r) == slotStartJdnSec(s) {
				found = true
			}
			rc := r.GetLunar().GetEightChar()
			rc.SetSect(sect)
			expect(rc.GetYear() == yg && rc.GetMonth() == mg && rc.GetDay() == dg && rc.GetTime() == tg, "sect %d base %d: returned %s has pillars %s %s %s %s, asked for %s %s %s %s", sect, base, r.ToYmdHms(), rc.GetYear(), rc.GetMonth(), rc.GetDay(), rc.GetTime(), yg, mg, dg, tg)
			expect(r.GetYear() >= base, "sect %d base %d: returned %s is before the base year", sect, base, r.ToYmdHms())
			if prev != nil {
				expect(prev.IsBefore(r), "sect %d base %d: list not strictly increasing at %s, %s", sect, base, prev.ToYmdHms(), r.ToYmdHms())
			}
			prev = r
		}
		expect(found, "sect %d base %d: no returned moment in the two-hour slot of %s (pillars %s %s %s %s, %d returned)", sect, base, s.ToYmdHms(), yg, mg, dg, tg, lst.Len())
	}
	for _, base := range bases {
		step := 6
		if thorough {
			step = 1
		}
		if base < 1600 && thorough {
			step *= 7
		}
		if base < 1600 && !thorough {
			step = 1
		}
		last := thisYear
		if base < 1600 && !thorough {
			last = base + 1 // quick: base year 1 only for its own first two years (the edge of the range)
		}
		for y := base; y <= last; y += step {
			table := NewLunarFromYmd(y, 6, 1).GetJieQiTable()
			var moments []*Solar
			for i := 2; i <= 24; i += 2 { // the twelve Jie of civil year y: 小寒 .. 大雪
				j := table[JIE_QI_IN_USE[i]]
				if i == 2 && j.GetYear() < base {
					continue
				}
				for _, off := range []int{-7200, -1800, -1, 0, 1, 1800, 7200} {
					secs := j.GetHour()*3600 + j.GetMinute()*60 + j.GetSecond() + off
					d := j
					for secs < 0 {
						secs += 86400
						d = d.NextDay(-1)
					}
					for secs >= 86400 {
						secs -= 86400
						d = d.NextDay(1)
					}
					moments = append(moments, NewSolar(d.GetYear(), d.GetMonth(), d.GetDay(), secs/3600, secs%3600/60, secs%60))
				}
			}
			lc := table["立春"]
			for _, hm := range [][2]int{{0, 30}, {12, 0}, {23, 30}} {
				moments = append(moments, NewSolar(lc.GetYear(), lc.GetMonth(), lc.GetDay(), hm[0], hm[1], 0))
			}
			for k := 0; k < 4; k++ {
				m, d := 1+rng.Intn(12), 1+rng.Intn(28)
				for _, hms := range [][3]int{{23, 0, 0}, {23, 59, 59}, {0, 0, 0}, {0, 59, 59}} {
					moments = append(moments, NewSolar(y, m, d, hms[0], hms[1], hms[2]))
				}
			}
			for m := 1; m <= 12; m++ {
				moments = append(moments, NewSolar(y, m, 1+rng.Intn(28), rng.Intn(24), rng.Intn(60), rng.Intn(60)))
			}
			xh := table["小寒"]
			for _, s := range moments {
				if s.GetYear() > thisYear || (y == base && s.IsBefore(xh)) {
					continue
				}
				check(s, 1, base)
				check(s, 2, base)
			}
		}
	}
	fmt.Println("STANDIN-EVAL", evals)
	fmt.Println("STANDIN-DONE")
}
