package calendar

// Bounded stand-in for C14 (working-day stepping, pay-rate multiplier). Executed, not proved.

import (
	"fmt"
	"os"
	"testing"

	"github.com/6tail/lunar-go/HolidayUtil"
)

func isWorkDay(s *Solar) bool {
	h := HolidayUtil.GetHolidayByYmd(s.GetYear(), s.GetMonth(), s.GetDay())
	if h != nil {
		return h.IsWork()
	}
	w := s.GetWeek()
	return w >= 1 && w <= 5
}

func TestStandinWorkdayStep(t *testing.T) {
	evals, fails := 0, 0
	expect := func(ok bool, format string, a ...interface{}) {
		evals++
		if !ok {
			fails++
			if fails <= 20 {
				fmt.Println("STANDIN-FAIL " + fmt.Sprintf(format, a...))
			}
		}
	}
	maxN := 12
	if os.Getenv("VERIF_TIER") == "thorough" {
		maxN = 45
	}
	start := NewSolarFromYmd(2001, 12, 20)
	end := NewSolarFromYmd(2026, 1, 20)
	for s := start; !s.IsAfter(end); s = s.NextDay(1) {
		for n := -maxN; n <= maxN; n++ {
			r := s.Next(n, true)
			if n == 0 {
				expect(r.ToYmdHms() == s.ToYmdHms(), "%s Next(0,true) = %s", s.ToYmd(), r.ToYmd())
				continue
			}
			// exactly |n| working days strictly after s up to and including r (or before, for negative n), r is a working day
			cnt := 0
			step := 1
			if n < 0 {
				step = -1
			}
			d := s
			for d.ToYmd() != r.ToYmd() {
				d = d.NextDay(step)
				if isWorkDay(d) {
					cnt++
				}
				if cnt > maxN+2 || d.Subtract(s) > 400 || d.Subtract(s) < -400 {
					break
				}
			}
			an := n
			if an < 0 {
				an = -an
			}
			expect(isWorkDay(r) && cnt == an && ((n > 0) == r.IsAfter(s)), "%s Next(%d,true) = %s: working=%v working days passed=%d", s.ToYmd(), n, r.ToYmd(), isWorkDay(r), cnt)
		}
		// pay rate: 3 on statutory festival days, 2 on other days off, 1 otherwise
		l := s.GetLunar()
		statutory := (s.GetMonth() == 1 && s.GetDay() == 1) || (s.GetMonth() == 5 && s.GetDay() == 1) || (s.GetMonth() == 10 && s.GetDay() >= 1 && s.GetDay() <= 3) ||
			(l.GetMonth() == 1 && l.GetDay() >= 1 && l.GetDay() <= 3) || (l.GetMonth() == 5 && l.GetDay() == 5) || (l.GetMonth() == 8 && l.GetDay() == 15) || l.GetJieQi() == "清明"
		want := 1
		if statutory {
			want = 3
		} else if !isWorkDay(s) {
			want = 2
		}
		expect(s.GetSalaryRate() == want, "%s salary rate %d, expected %d", s.ToYmd(), s.GetSalaryRate(), want)
	}
	fmt.Println("STANDIN-EVAL", evals)
	fmt.Println("STANDIN-DONE")
}
