package calendar

// Bounded stand-in for C19 (printed forms). Executed, not proved.

import (
	"fmt"
	"math/rand"
	"os"
	"strconv"
	"strings"
	"testing"

	"github.com/6tail/lunar-go/SolarUtil"
)

var pfDigits = map[rune]int{'〇': 0, '一': 1, '二': 2, '三': 3, '四': 4, '五': 5, '六': 6, '七': 7, '八': 8, '九': 9}
var pfMonths = map[string]int{"正": 1, "二": 2, "三": 3, "四": 4, "五": 5, "六": 6, "七": 7, "八": 8, "九": 9, "十": 10, "冬": 11, "腊": 12}

func pfDay(s string) int {
	r := []rune(s)
	if len(r) != 2 {
		return -1
	}
	units := map[rune]int{'一': 1, '二': 2, '三': 3, '四': 4, '五': 5, '六': 6, '七': 7, '八': 8, '九': 9, '十': 10}
	switch r[0] {
	case '初':
		return units[r[1]]
	case '十':
		return 10 + units[r[1]]
	case '二':
		if r[1] == '十' {
			return 20
		}
	case '廿':
		return 20 + units[r[1]]
	case '三':
		if r[1] == '十' {
			return 30
		}
	}
	return -1
}

// independent parser of "<digits>年[闰]<month>月<day>"
func pfParse(s string) (y, m, d int, ok bool) {
	i := strings.Index(s, "年")
	j := strings.LastIndex(s, "月")
	if i <= 0 || j < i {
		return // no year digits at all is not a canonical form
	}
	for _, r := range s[:i] {
		v, has := pfDigits[r]
		if !has {
			return
		}
		y = y*10 + v
	}
	ms := s[i+len("年") : j]
	leap := strings.HasPrefix(ms, "闰")
	ms = strings.TrimPrefix(ms, "闰")
	m, has := pfMonths[ms]
	if !has {
		return
	}
	if leap {
		m = -m
	}
	d = pfDay(s[j+len("月"):])
	return y, m, d, d > 0
}

func TestStandinPrintForms(t *testing.T) {
	evals, fails := 0, 0
	expect := func(ok bool, format string, a ...interface{}) {
		evals++
		if !ok {
			fails++
			if fails <= 20 {
				fmt.Println("STANDIN-FAIL " + fmt.Sprintf(format, a...))
			}
		}
	}
	yearStr := map[string]int{}
	thorough := os.Getenv("VERIF_TIER") == "thorough"
	for y := 2; y <= 9997; y++ {
		if !thorough && y%20 != 0 && y > 30 && !(y >= 230 && y <= 245) && !(y >= 1580 && y <= 1585) && y < 9990 {
			ys := NewLunarFromYmd(y, 1, 1).GetYearInChinese()
			if o, dup := yearStr[ys]; dup && o != y {
				expect(false, "lunar years %d and %d both print %q", o, y, ys)
			}
			yearStr[ys] = y
			continue
		}
		seen := map[string]string{}
		for e := NewLunarYear(y).GetMonthsInYear().Front(); e != nil; e = e.Next() {
			mo := e.Value.(*LunarMonth)
			for d := 1; d <= mo.GetDayCount(); d++ {
				l := NewLunarFromYmd(y, mo.GetMonth(), d)
				s := l.String()
				py, pm, pd, ok := pfParse(s)
				expect(ok && py == y && pm == mo.GetMonth() && pd == d, "Lunar %d/%d/%d prints %q which parses back to %d/%d/%d", y, mo.GetMonth(), d, s, py, pm, pd)
				key := fmt.Sprintf("%d/%d/%d", y, mo.GetMonth(), d)
				if prev, dup := seen[s]; dup {
					expect(false, "lunar dates %s and %s both print %q", prev, key, s)
				}
				seen[s] = key
				if d == 1 || d == mo.GetDayCount() {
					ts := NewTaoFromLunar(l).ToString()
					ty, tm, td, ok2 := pfParse(ts)
					expect(ok2 && ty == y+2697 && tm == mo.GetMonth() && td == d, "Tao of %s prints %q", key, ts)
					fs := NewFotoFromLunar(l).ToString()
					fy, fm, fd, ok3 := pfParse(fs)
					expect(ok3 && fy == y+544 && fm == mo.GetMonth() && fd == d, "Foto of %s prints %q", key, fs)
				}
				if d == 1 {
					ys := l.GetYearInChinese()
					if o, dup := yearStr[ys]; dup && o != y {
						expect(false, "lunar years %d and %d both print %q", o, y, ys)
					}
					yearStr[ys] = y
				}
			}
		}
	}
	// the edges of the civil range (civil years 1 and 9998 reach lunar years 0 and 9998): every civil day, through the civil side
	for _, cy := range []int{1, 9998} {
		seen := map[string]string{}
		for sd := NewSolarFromYmd(cy, 1, 1); sd.GetYear() == cy; sd = sd.NextDay(1) {
			l := sd.GetLunar()
			s := l.String()
			py, pm, pd, ok := pfParse(s)
			expect(ok && py == l.GetYear() && pm == l.GetMonth() && pd == l.GetDay(), "Lunar of %s (%d/%d/%d) prints %q which parses back to %d/%d/%d", sd.ToYmd(), l.GetYear(), l.GetMonth(), l.GetDay(), s, py, pm, pd)
			if prev, dup := seen[s]; dup {
				expect(false, "civil days %s and %s both print %q", prev, sd.ToYmd(), s)
			}
			seen[s] = sd.ToYmd()
		}
	}
	// civil timestamps: fixed width, parse back, lexicographic order = chronological order
	seed, _ := strconv.ParseInt(os.Getenv("VERIF_SEED"), 10, 64)
	rng := rand.New(rand.NewSource(seed + 5))
	mk := func() *Solar {
		y := 1 + rng.Intn(9999)
		if rng.Intn(8) == 0 {
			y = 1582
		}
		m := 1 + rng.Intn(12)
		d := 1 + rng.Intn(28)
		if y == 1582 && m == 10 && d > 4 && d < 15 {
			d = 15
		}
		return NewSolar(y, m, d, rng.Intn(24), rng.Intn(60), rng.Intn(60))
	}
	var prev *Solar
	for i := 0; i < 40000; i++ {
		s := mk()
		a, b := s.ToYmd(), s.ToYmdHms()
		expect(len(a) == 10 && len(b) == 19 && b[:10] == a, "%v prints %q / %q", *s, a, b)
		var y, mo, d, h, mi, se int
		n, _ := fmt.Sscanf(b, "%04d-%02d-%02d %02d:%02d:%02d", &y, &mo, &d, &h, &mi, &se)
		expect(n == 6 && y == s.GetYear() && mo == s.GetMonth() && d == s.GetDay() && h == s.GetHour() && mi == s.GetMinute() && se == s.GetSecond(), "%q does not parse back to %v", b, *s)
		if prev != nil {
			expect((strings.Compare(prev.ToYmdHms(), b) < 0) == prev.IsBefore(s) && (strings.Compare(prev.ToYmd(), a) < 0) == (prev.Subtract(s) < 0), "order of %q and %q", prev.ToYmdHms(), b)
		}
		prev = s
	}
	// the ends of every month of every year (incl. 29 February of the Julian century years and 1582-10-31): both civil
	// forms parse back to exactly the fields and agree on the date part
	for y := 1; y <= 9999; y++ {
		for m := 1; m <= 12; m++ {
			last := SolarUtil.GetDaysOfMonth(y, m)
			if y == 1582 && m == 10 {
				last = 31
			}
			for _, d := range []int{1, last - 1, last} {
				s := NewSolar(y, m, d, 23, 59, 58)
				a, b := s.ToYmd(), s.ToYmdHms()
				var py, pm, pd, ph, pi, ps int
				n, _ := fmt.Sscanf(b, "%04d-%02d-%02d %02d:%02d:%02d", &py, &pm, &pd, &ph, &pi, &ps)
				expect(len(a) == 10 && len(b) == 19 && b[:10] == a && s.String() == a && n == 6 && py == y && pm == m && pd == d && ph == 23 && pi == 59 && ps == 58, "%d-%d-%d 23:59:58 prints %q / %q / %q", y, m, d, a, b, s.String())
			}
		}
	}
	fmt.Println("STANDIN-EVAL", evals)
	fmt.Println("STANDIN-DONE")
}
