package calendar

// Bounded stand-in for C15 (weeks of a month; month-separated week stepping). Executed, not proved.

import (
	"fmt"
	"os"
	"testing"

	"github.com/6tail/lunar-go/SolarUtil"
)

func TestStandinMonthWeeks(t *testing.T) {
	evals, fails := 0, 0
	expect := func(ok bool, format string, a ...interface{}) {
		evals++
		if !ok {
			fails++
			if fails <= 20 {
				fmt.Println("STANDIN-FAIL " + fmt.Sprintf(format, a...))
			}
		}
	}
	thorough := os.Getenv("VERIF_TIER") == "thorough"
	for y := 1; y <= 9998; y++ {
		if !thorough && y%5 != 0 && !(y >= 1575 && y <= 1590) && !(y >= 2000 && y <= 2040) {
			continue
		}
		for m := 1; m <= 12; m++ {
			sm := NewSolarMonthFromYm(y, m)
			first := NewSolarFromYmd(y, m, 1)
			last := first.NextDay(SolarUtil.GetDaysOfMonth(y, m) - 1)
			for start := 0; start <= 6; start++ {
				ws := sm.GetWeeks(start)
				n := SolarUtil.GetWeeksOfMonth(y, m, start)
				expect(ws.Len() == n, "%d-%d start %d: GetWeeks lists %d weeks, GetWeeksOfMonth says %d", y, m, start, ws.Len(), n)
				k := 0
				var prevFirst *Solar
				for e := ws.Front(); e != nil; e = e.Next() {
					w := e.Value.(*SolarWeek)
					fd := w.GetFirstDay()
					if k == 0 {
						expect(!fd.IsAfter(first) && first.Subtract(fd) <= 6 && fd.GetWeek() == start, "%d-%d start %d: first week starts %s", y, m, start, fd.ToYmd())
					} else {
						expect(fd.Subtract(prevFirst) == 7, "%d-%d start %d: week %d starts %s, previous %s", y, m, start, k+1, fd.ToYmd(), prevFirst.ToYmd())
					}
					prevFirst = fd
					k++
				}
				if prevFirst != nil {
					expect(!prevFirst.IsAfter(last) && last.Subtract(prevFirst) <= 6, "%d-%d start %d: last listed week starts %s, month ends %s", y, m, start, prevFirst.ToYmd(), last.ToYmd())
				}
				// month-separated stepping walks the sequence (month, week 1..n), (next month, week 1..) one position per
				// step, in both directions, also across a year end: a position is (year, month, index, first day)
				if y > 1 && y < 9998 {
					pos := func(w *SolarWeek) string {
						return fmt.Sprintf("%d-%d#%d@%s", w.GetYear(), w.GetMonth(), w.GetIndex(), w.GetFirstDay().ToYmd())
					}
					w1 := NewSolarWeekFromYmd(y, m, 1, start)
					cur := w1
					for k := 1; k <= n; k++ {
						expect(cur.GetYear() == y && cur.GetMonth() == m && cur.GetIndex() == k, "%d-%d start %d: position %d of the forward walk is %s", y, m, start, k, pos(cur))
						nx := cur.Next(1, true)
						if k < n {
							expect(nx.GetYear() == y && nx.GetMonth() == m && nx.GetIndex() == k+1 && nx.GetFirstDay().Subtract(cur.GetFirstDay()) == 7, "%d-%d start %d: Next(1,true) from week %d reaches %s", y, m, start, k, pos(nx))
							bk := nx.Next(-1, true)
							expect(pos(bk) == pos(cur), "%d-%d start %d: Next(-1,true) from %s reaches %s, not %s", y, m, start, pos(nx), pos(bk), pos(cur))
						} else {
							ny, nm := y, m+1
							if nm > 12 {
								ny, nm = y+1, 1
							}
							expect(nx.GetYear() == ny && nx.GetMonth() == nm && nx.GetIndex() == 1, "%d-%d start %d: Next(1,true) from the last week reaches %s", y, m, start, pos(nx))
							bk := nx.Next(-1, true)
							expect(pos(bk) == pos(cur), "%d-%d start %d: Next(-1,true) from %s reaches %s, not %s", y, m, start, pos(nx), pos(bk), pos(cur))
							// n steps at once from week 1 = one step at a time; and back again
							jump := w1.Next(n, true)
							expect(pos(jump) == pos(nx), "%d-%d start %d: Next(%d,true) from week 1 reaches %s, stepwise %s", y, m, start, n, pos(jump), pos(nx))
							back := nx.Next(-n, true)
							expect(pos(back) == pos(w1), "%d-%d start %d: Next(-%d,true) from %s reaches %s, not %s", y, m, start, n, pos(nx), pos(back), pos(w1))
						}
						cur = nx
					}
				}
				// month-separated stepping from the middle of the month moves one week forward / back
				if y > 1 && y < 9998 {
					mid := NewSolarWeekFromYmd(y, m, 15, start)
					f := mid.Next(1, true)
					b := mid.Next(-1, true)
					// inside a month (not its first or last week) one step is one week; at the ends the sequence
					// continues with the neighbouring month's week, which may be the same physical week
					if mid.GetIndex() < n {
						expect(f != nil && f.GetFirstDay().Subtract(mid.GetFirstDay()) == 7, "%d-%d-15 start %d: Next(1,true) moves %d days", y, m, start, f.GetFirstDay().Subtract(mid.GetFirstDay()))
						fb := f.Next(-1, true)
						expect(fb.GetFirstDay().ToYmd() == mid.GetFirstDay().ToYmd(), "%d-%d-15 start %d: Next(1,true).Next(-1,true) is not the start", y, m, start)
					}
					if mid.GetIndex() > 1 {
						expect(b != nil && mid.GetFirstDay().Subtract(b.GetFirstDay()) == 7, "%d-%d-15 start %d: Next(-1,true) moves %d days", y, m, start, mid.GetFirstDay().Subtract(b.GetFirstDay()))
					}
				}
			}
		}
	}
	fmt.Println("STANDIN-EVAL", evals)
	fmt.Println("STANDIN-DONE")
}
