#!/bin/sh
# Builds the verifier offline from files on disk only.
set -e
cd "$(dirname "$0")"
export GOFLAGS=-mod=mod GOPROXY=off GOSUMDB=off GOTOOLCHAIN=local
mkdir -p bin evidence replay
cd engine && go build -o ../bin/govc .
