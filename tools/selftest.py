#!/usr/bin/env python3
"""Must-fail corpus: every case is a change to /repo (reverse of a `fix:` commit, a hand mutation, or a seeded
change) that the named check must report as a violation. Each case is applied to a private worktree of /repo HEAD
and checked with a private copy of /verif, so /repo, the evidence and the replay directory stay untouched.
usage: tools/selftest.py [name-substring ...]      writes selftest/LAST_RUN.md; exit 1 if a case is not caught."""
import json, os, subprocess, sys, time
env = dict(os.environ, GOFLAGS="-mod=mod", GOPROXY="off", GOSUMDB="off", GOTOOLCHAIN="local")
def run(cmd, cwd=None, timeout=3600):
    p = subprocess.run(cmd, shell=True, cwd=cwd, env=env, stdout=subprocess.PIPE, stderr=subprocess.STDOUT, text=True, timeout=timeout)
    return p.returncode, p.stdout
cases = json.load(open("/verif/selftest/cases.json"))
for d in sorted(os.listdir("/verif/seeded")):
    m = os.path.join("/verif/seeded", d, "meta.json")
    if os.path.exists(m):
        mm = json.load(open(m))
        cases.append({"name": "seeded_" + d, "prop": mm["property"], "only": "", "what": (mm.get("summary") or "")[:100], "patch": os.path.join("/verif/seeded", d, "patch.diff")})
sel = sys.argv[1:]
os.makedirs("/tmp/scratch", exist_ok=True)
rows, bad = [], 0
for c in cases:
    if sel and not any(s in c["name"] for s in sel):
        continue
    wt, vc = "/tmp/scratch/selftest_wt", "/tmp/scratch/selftest_vc"
    run(f"git -C /repo worktree remove --force {wt}")
    rc, out = run(f"git -C /repo worktree add -q --detach {wt} HEAD")
    assert rc == 0, out
    run(f"rm -rf {vc}; mkdir -p {vc} && rsync -a --exclude .git --exclude .cache --exclude replay --exclude seeded --exclude selftest /verif/ {vc}/")
    patch = c.get("patch") or f"/verif/selftest/cases/{c['name']}.diff"
    t0 = time.time()
    try:
        rc, out = run(f"git apply {patch}", cwd=wt)
        if rc != 0:
            rows.append((c, "PATCH DOES NOT APPLY", 0)); bad += 1
            continue
        only = f"-only '{c['only']}'" if c.get("only") else ""
        rc, out = run(f"VERIF_REPO={wt} VERIF_DIR={vc} {vc}/check {c['prop']} quick {only}", cwd=vc)
        viol = [l for l in out.splitlines() if l.startswith("VIOLATION")]
        if rc == 1 and viol:
            rows.append((c, "caught: " + viol[0].replace(vc, "/verif")[:160], time.time() - t0))
        else:
            rows.append((c, f"MISSED (exit {rc})", time.time() - t0)); bad += 1
    finally:
        run(f"git -C /repo worktree remove --force {wt}")
        run(f"rm -rf {vc}")
    print(rows[-1][0]["name"], rows[-1][1][:120], f"{rows[-1][2]:.0f}s", flush=True)
# results are merged by case name into selftest/last_run.json (a partial run keeps the other cases' last outcome)
lj = "/verif/selftest/last_run.json"
prev = json.load(open(lj)) if os.path.exists(lj) else {}
head = subprocess.run("git -C /repo log -1 --format=%h", shell=True, stdout=subprocess.PIPE, text=True).stdout.strip()
for c, o, t in rows:
    prev[c["name"]] = {"check": (c["prop"] + " " + c.get("only", "")).strip(), "change": c["what"], "outcome": o, "seconds": round(t), "repo_head": head}
json.dump(prev, open(lj, "w"), indent=1, ensure_ascii=False)
with open("/verif/selftest/LAST_RUN.md", "w") as f:
    f.write("# must-fail corpus, last outcome per case\n\n| case | check | change | outcome | s | /repo HEAD |\n|---|---|---|---|---|---|\n")
    nb = 0
    for n in sorted(prev):
        r = prev[n]
        nb += 0 if r["outcome"].startswith("caught") else 1
        f.write(f"| {n} | {r['check']} | {r['change']} | {r['outcome']} | {r['seconds']} | {r['repo_head']} |\n")
    f.write(f"\n{len(prev)-nb} of {len(prev)} caught.\n")
sys.exit(1 if bad else 0)
