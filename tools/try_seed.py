#!/usr/bin/env python3
"""Confirm a seeded defect (patch + demo) in a scratch worktree and run the registered checks against it.
usage: try_seed.py <src_dir with patch.diff demo_test.go meta.json> <seed id> [props...]
Writes /verif/seeded/<id>/{patch.diff,demo_test.go,meta.json}. /repo is left unchanged."""
import json, os, shutil, subprocess, sys, time
src, sid = sys.argv[1], sys.argv[2]
props = sys.argv[3:]
env = dict(os.environ, GOFLAGS="-mod=mod", GOPROXY="off", GOSUMDB="off", GOTOOLCHAIN="local")
def run(cmd, cwd=None, timeout=3000):
    p = subprocess.run(cmd, shell=True, cwd=cwd, env=env, stdout=subprocess.PIPE, stderr=subprocess.STDOUT, text=True, timeout=timeout)
    return p.returncode, p.stdout
meta = json.load(open(os.path.join(src, "meta.json")))
if not props:
    props = [meta["property"]]
wt = "/tmp/scratch/seedwt_" + sid
run(f"git -C /repo worktree remove --force {wt}")
rc, out = run(f"git -C /repo worktree add -q --detach {wt} HEAD")
assert rc == 0, out
res = {"id": sid, "property": meta["property"], "summary": meta.get("summary"), "needs": meta.get("needs"), "ran": {}}
try:
    shutil.copy(os.path.join(src, "demo_test.go"), os.path.join(wt, "test", "zz_seed_demo_test.go"))
    rc0, out0 = run("go test -vet=off -count=1 ./test/ 2>&1 | tail -5", cwd=wt)
    res["ran"]["suite_plus_demo_without_change"] = "PASS" if "ok " in out0 and "FAIL" not in out0 else "FAIL: " + out0[-300:]
    rc, out = run(f"git apply {os.path.abspath(os.path.join(src,'patch.diff'))}", cwd=wt)
    res["ran"]["patch_applies"] = (rc == 0)
    os.rename(os.path.join(wt, "test", "zz_seed_demo_test.go"), f"/tmp/scratch/zz_seed_demo_{sid}.keep")
    rcb, outb = run("go build ./... && go test -vet=off -count=1 ./... 2>&1 | tail -5", cwd=wt)
    res["ran"]["existing_suite_with_change"] = "PASS" if "ok " in outb and "FAIL" not in outb else "FAIL: " + outb[-300:]
    os.rename(f"/tmp/scratch/zz_seed_demo_{sid}.keep", os.path.join(wt, "test", "zz_seed_demo_test.go"))
    rc1, out1 = run("go test -vet=off -count=1 ./test/ 2>&1 | grep -v '^ok\\|^PASS' | head -8", cwd=wt)
    res["ran"]["demo_with_change"] = "FAIL (as required): " + out1.strip()[:400] if "FAIL" in out1 else "PASS (demo does not detect the change!)"
finally:
    run(f"git -C /repo worktree remove --force {wt}")
ok = res["ran"].get("suite_plus_demo_without_change") == "PASS" and res["ran"].get("existing_suite_with_change") == "PASS" and res["ran"].get("demo_with_change", "").startswith("FAIL")
res["confirmed"] = ok
# run the checks against the change: a private worktree of /repo HEAD with the patch applied and a private copy of
# /verif (so that /repo, the evidence files and the replay directory of the real tree are not disturbed); the
# check commands, contracts, stand-ins and known findings are exactly the committed ones
checks = {}
if ok:
    wt2 = "/tmp/scratch/seedrun_" + sid
    vc = "/tmp/scratch/vcopy_" + sid
    run(f"git -C /repo worktree remove --force {wt2}")
    rc, out = run(f"git -C /repo worktree add -q --detach {wt2} HEAD")
    assert rc == 0, out
    run(f"rm -rf {vc}; mkdir -p {vc} && rsync -a --exclude .git --exclude .cache --exclude replay --exclude seeded /verif/ {vc}/")
    rc, out = run(f"git apply {os.path.abspath(os.path.join(src,'patch.diff'))}", cwd=wt2)
    try:
        for p in props:
            t0 = time.time()
            rc, out = run(f"VERIF_REPO={wt2} VERIF_DIR={vc} {vc}/check {p} quick", cwd=vc)
            viol = [l.replace(vc, "/verif") for l in out.splitlines() if l.startswith("VIOLATION")]
            fails = [l.strip() for l in out.splitlines() if l.strip().startswith("FAIL")]
            details = [l.strip()[:300] for l in out.splitlines() if l.strip().startswith("replay:")]
            checks[p] = {"exit": rc, "violations": viol[:6], "failed_obligations": fails[:8], "replays": details[:4], "seconds": round(time.time() - t0, 1)}
    finally:
        run(f"git -C /repo worktree remove --force {wt2}")
        run(f"rm -rf {vc}")
res["checks"] = checks
res["detected_by"] = [p for p, c in checks.items() if c["exit"] == 1]
dst = f"/verif/seeded/{sid}"
os.makedirs(dst, exist_ok=True)
shutil.copy(os.path.join(src, "patch.diff"), dst)
shutil.copy(os.path.join(src, "demo_test.go"), dst)
json.dump(res, open(os.path.join(dst, "meta.json"), "w"), indent=1, ensure_ascii=False)
print(json.dumps({k: res[k] for k in ("id", "confirmed", "detected_by")}, ensure_ascii=False), res["ran"], {p: (c["exit"], c["failed_obligations"][:2]) for p, c in checks.items()})
