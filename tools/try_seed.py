#!/usr/bin/env python3
"""Confirm a seeded defect (patch + demo) in a scratch worktree and run the registered checks against it.
usage: try_seed.py <src_dir with patch.diff demo_test.go meta.json> <seed id> [props...]
Writes /verif/seeded/<id>/{patch.diff,demo_test.go,meta.json}. /repo is left unchanged."""
import json, os, shutil, subprocess, sys, time
src, sid = sys.argv[1], sys.argv[2]
props = sys.argv[3:]
env = dict(os.environ, GOFLAGS="-mod=mod", GOPROXY="off", GOSUMDB="off", GOTOOLCHAIN="local")
def run(cmd, cwd=None, timeout=3000):
    p = subprocess.run(cmd, shell=True, cwd=cwd, env=env, stdout=subprocess.PIPE, stderr=subprocess.STDOUT, text=True, timeout=timeout)
    return p.returncode, p.stdout
meta = json.load(open(os.path.join(src, "meta.json")))
if not props:
    props = [meta["property"]]
wt = "/tmp/scratch/seedwt_" + sid
run(f"git -C /repo worktree remove --force {wt}")
rc, out = run(f"git -C /repo worktree add -q --detach {wt} HEAD")
assert rc == 0, out
res = {"id": sid, "property": meta["property"], "summary": meta.get("summary"), "needs": meta.get("needs"), "ran": {}}
try:
    shutil.copy(os.path.join(src, "demo_test.go"), os.path.join(wt, "test", "zz_seed_demo_test.go"))
    rc0, out0 = run("go test -vet=off -count=1 ./test/ 2>&1 | tail -5", cwd=wt)
    res["ran"]["suite_plus_demo_without_change"] = "PASS" if "ok " in out0 and "FAIL" not in out0 else "FAIL: " + out0[-300:]
    rc, out = run(f"git apply {os.path.abspath(os.path.join(src,'patch.diff'))}", cwd=wt)
    res["ran"]["patch_applies"] = (rc == 0)
    os.rename(os.path.join(wt, "test", "zz_seed_demo_test.go"), "/tmp/scratch/zz_seed_demo_test.go.keep")
    rcb, outb = run("go build ./... && go test -vet=off -count=1 ./... 2>&1 | tail -5", cwd=wt)
    res["ran"]["existing_suite_with_change"] = "PASS" if "ok " in outb and "FAIL" not in outb else "FAIL: " + outb[-300:]
    os.rename("/tmp/scratch/zz_seed_demo_test.go.keep", os.path.join(wt, "test", "zz_seed_demo_test.go"))
    rc1, out1 = run("go test -vet=off -count=1 ./test/ 2>&1 | grep -v '^ok\\|^PASS' | head -8", cwd=wt)
    res["ran"]["demo_with_change"] = "FAIL (as required): " + out1.strip()[:400] if "FAIL" in out1 else "PASS (demo does not detect the change!)"
finally:
    run(f"git -C /repo worktree remove --force {wt}")
ok = res["ran"].get("suite_plus_demo_without_change") == "PASS" and res["ran"].get("existing_suite_with_change") == "PASS" and res["ran"].get("demo_with_change", "").startswith("FAIL")
res["confirmed"] = ok
# run the checks against the change in /repo
checks = {}
if ok:
    rc, out = run("git -C /repo status --porcelain")
    assert out.strip() == "", "/repo not clean: " + out
    rc, out = run(f"git -C /repo apply {os.path.abspath(os.path.join(src,'patch.diff'))}")
    try:
        for p in props:
            t0 = time.time()
            rc, out = run(f"./check {p} quick", cwd="/verif")
            viol = [l for l in out.splitlines() if l.startswith("VIOLATION")]
            fails = [l.strip() for l in out.splitlines() if l.strip().startswith("FAIL")]
            checks[p] = {"exit": rc, "violations": viol[:6], "failed_obligations": fails[:8], "seconds": round(time.time() - t0, 1)}
    finally:
        run("git -C /repo checkout -- .")
res["checks"] = checks
res["detected_by"] = [p for p, c in checks.items() if c["exit"] == 1]
dst = f"/verif/seeded/{sid}"
os.makedirs(dst, exist_ok=True)
shutil.copy(os.path.join(src, "patch.diff"), dst)
shutil.copy(os.path.join(src, "demo_test.go"), dst)
json.dump(res, open(os.path.join(dst, "meta.json"), "w"), indent=1, ensure_ascii=False)
print(json.dumps({k: res[k] for k in ("id", "confirmed", "detected_by")}, ensure_ascii=False), res["ran"], {p: (c["exit"], c["failed_obligations"][:2]) for p, c in checks.items()})
