#!/usr/bin/env python3
import json, glob, os
rows=[]
for f in sorted(glob.glob('/verif/seeded/*/meta.json')):
    m=json.load(open(f))
    det=m.get('detected_by') or []
    fo=[]
    for p,c in (m.get('checks') or {}).items():
        fo+= [x.split()[1] for x in c.get('failed_obligations',[])[:3]]
    rows.append((m['id'], m['property'], 'yes' if m.get('confirmed') else 'NO', ','.join(det) or '-', '; '.join(fo)[:120], (m.get('summary') or '')[:110], (m.get('needs') or '')[:110]))
out=["# Seeded changes and which check catches them\n","Each change was produced by a sub-agent that saw only the property text and a scratch worktree, then confirmed here: the unedited suite passes with the change, its demonstration fails with it and passes without it. `detected by` lists the registered checks whose quick command exited 1 with the change applied to /repo (undone afterwards).\n","| id | property | confirmed | detected by | failing obligations (first) | change | needs |","|---|---|---|---|---|---|---|"]
for r in rows: out.append("| "+" | ".join(r)+" |")
open('/verif/seeded/SUMMARY.md','w').write("\n".join(out)+"\n")
print("\n".join(out[3:]))
