#!/usr/bin/env python3
# Regenerates /verif/MANIFEST.json from the table below (kept next to the machinery so the two stay in step).
import json, subprocess
props=[json.loads(l) for l in open('/verif/properties.jsonl')]
TECH="contract-based deductive verification: WP-style VC generation over the typed Go AST of /repo, contracts in build-tag-guarded comment files, obligations discharged by z3/cvc5"
claimed={
 "C04":dict(cat="proof",
  text="Every clause of the statement is a postcondition, loop invariant or ghost lemma over contracts on the real functions (SolarUtil.IsLeapYear/GetDaysOfYear/GetDaysOfMonth/GetDaysInYear/GetDaysBetween/IsBefore/GetJulianDay/GetWeek, calendar.NewSolar/NewSolarFromJulianDay/Solar.NextDay/NextHour/NextMonth/NextYear/Subtract/SubtractMinute/IsAfter/IsBefore/GetWeek/GetJulianDay, SolarMonth.Next) against an independent integer Julian-Day-Number specification (Fliegel-Van Flandern, Julian to 1582-10-04, Gregorian from 1582-10-15). All obligations are discharged for all inputs in years 1..9999, all real-valued Julian Days, all step sizes; loops by inductive invariants with termination measures. The Meeus inverse is proved against a witness whose existence is itself proved (lemma ymdOf: every day number is the jdn of a valid date). Lemmas: round trip at one-second resolution, additivity, inverse, agreement of Subtract/SubtractMinute/IsAfter/IsBefore/NextHour/GetWeek with the day count, the 1582 gap.",
  note="float64 modelled as reals with IEEE-754 round-to-nearest error bounds and proved exactness side conditions (no FMA fusion); ints mathematical with generated no-overflow obligations; solvers and the VC generator trusted (must-fail corpus + replay on the real code); stdlib models for math.Round/Ceil. NewSolarFromJulianDay is claimed for JD+0.5 in [1721424, 5373483] (0001-01-01 .. 9999-12-30).",
  ref="DESIGN.md section 4 C04, Appendix A.1-A.3"),
 "C20":dict(cat="proof",
  text="Solar.GetXingZuo is proved equal to the table entry selected by a sign function written from the conventional start days; lemmas prove that function total on all 366 month-day pairs, cyclic (each day's sign is the previous day's or its successor) and starting on the conventional days, and its postcondition mentions month and day only. Solar.GetFestivals is executed symbolically (map lookups on the Sprintf keys are matched against the literal keys of the real tables) and a ghost lemma proves, for every valid date in years 1..9999, that each of the 17 fixed-date entries is reported exactly on its month/day, each k-th-weekday entry exactly when weekday and (day-1)/7+1 match, and the last-weekday entry exactly when day+7 exceeds the month length; lemmas kthWeekday/lastWeekday prove there is exactly one such day per month.",
  note="string results are modelled as finite choices over the library's constant tables (evaluated with the real table contents on every run); fmt.Sprintf %d model; entries added to the festival tables later are not covered by the lemma until it is extended.",
  ref="DESIGN.md section 4 C20"),
 "C15":dict(cat="other",
  text="Proved for all dates in years 1..9999, all seven week starts and all step counts: SolarWeek.GetIndex / GetIndexInYear equal the number of week starts passed (closed form over the weekday of the 1st), GetFirstDay is the most recent week-start day, GetDays are the seven consecutive days from it and contain the date, Next(n,false) moves exactly 7n days and n then -n returns to the start; SolarUtil.GetWeeksOfMonth equals the index of the week holding the last day; SolarMonth.GetDays has exactly the month's length (21 for 1582-10); SolarMonth/SolarSeason/SolarHalfYear/SolarYear Next and GetMonths, with n then -n returning to the start. Level is 'other' because two clauses are not yet under contract (SolarMonth.GetWeeks agreeing with GetWeeksOfMonth, month-separated week stepping); they are listed as not covered in the evidence, not claimed.",
  note="same trusted base as C04 (float model for math.Ceil(x/7), stdlib list model). Not covered: SolarMonth.GetWeeks, SolarWeek.Next(n,true), GetFirstDayInMonth/GetDaysInMonth.",
  ref="DESIGN.md section 4 C15, Appendix A.9"),
}
na_reason={}
for p in props:
    na_reason[p["id"]]="check not built yet (engine under construction)"
na_reason["C02"]="every clause is relative to an astronomical oracle (true new moon, independent ephemeris, ICU); no contract within reach of an SMT-based verifier can state or decide that the float series of ShouXingUtil compute the sky. The structural consequences of a wrong table entry are decided under C06."
na_reason["C09"]="schedule independence and data-race freedom need a concurrency logic or a race detector; a sequential VC generator has neither, and adding one would be a different technique family. The sequential half (cache coherence of NewLunarYear) is covered under C06."
checks=[]
for pid,c in sorted(claimed.items()):
    checks.append({"property_id":pid,"quick_cmd":f"./check {pid} quick","thorough_cmd":f"./check {pid} thorough","evidence_file":f"evidence/{pid}.json",
      "replay_cmd_template":f"./check {pid} --replay {{path}}","engine":"govc",
      "level_claimed":{"category":c["cat"],"text":c["text"],"design_ref":c["ref"]},"level_note":c["note"],"technique":c.get("tech",TECH)})
src=subprocess.check_output(['git','-C','/repo','log','--format=%h %s']).decode().strip().split('\n')
hooks=[l.split()[0] for l in src if l.split(' ',1)[1].startswith('verif:')]
m={"version":1,"setup_cmd":"./setup.sh",
 "hooks":{"guard":"verif","enable":"the engine loads /repo with -tags=verif; hook files are zz_contracts_verif.go per package (comment-only: package clause + //@ contract comments), so the compiled library is identical with the tag on or off","baseline_off_cmd":"cd /repo && GOFLAGS=-mod=mod GOPROXY=off go test -vet=off -count=1 ./...","source_commits":hooks,"add_only":True},
 "engines":[{"name":"govc","path":"engine","serves_properties":sorted(claimed),"kind_free_text":"self-built deductive verifier for Go: symbolic execution / weakest-precondition VC generation over the typed AST (go/types via x/tools v0.29.0), contracts (requires/ensures/panics_iff/loop invariant+decreases/type invariants/ghost lemmas/hints) in //@ comments, SMT-LIB2 obligations raced on z3 4.8.12, z3 5.1.0, cvc5 1.0.3; counterexamples replayed on the real code via go test -overlay"}],
 "checks":checks,
 "not_applicable":[{"property_id":p["id"],"reason":na_reason[p["id"]]} for p in props if p["id"] not in claimed],
 "notes":"See DESIGN.md. Fix commits in /repo are recorded in known_findings.json (fixed: entries)."}
json.dump(m,open('/verif/MANIFEST.json','w'),indent=1,ensure_ascii=False)
print("claimed:",sorted(claimed))
