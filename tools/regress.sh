#!/bin/sh
# runs the quick command of every registered check on the current tree; prints one line per property
cd /verif
for p in $(python3 -c "import json;print(' '.join(c['property_id'] for c in json.load(open('MANIFEST.json'))['checks']))"); do
  t0=$(date +%s)
  out=$(./check $p quick "$@" 2>&1); rc=$?
  t1=$(date +%s)
  echo "$p exit=$rc $((t1-t0))s $(echo "$out" | grep '^TOTAL' | cut -c1-120)"
  if [ $rc -ne 0 ]; then echo "$out" | grep -A3 "FAIL\|VIOLATION\|UNDECIDED" | cut -c1-300 | head -20; fi
done
